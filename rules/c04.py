"""C04 — a comptime block yields what the same code yields at runtime (DESIGN §3 C04)."""
import re
from core import Rule
import synq
from synq import canon, walk
import facts as FA
from facts import short, strip_generics, show_chain, walk_chain, chain_calls

PROPERTY = "C04"
TITLE = "A comptime block yields what the same code yields at runtime"
NEEDS = ("syn", "facts")
TECHNIQUE = "static analysis: predicate-coverage rule (address-bearing result kinds vs the rejecting predicate), dominance of comptime evaluation before code generation, capture-width table extraction, MIR must-pass-through (every block the JIT runs records a result), def-use agreement of the type a global's constant data is written at and read at"
EXPLANATION = (
    "A comptime result is captured as raw bytes of the JIT's memory and embedded in the final binary, so (a) every result kind "
    "whose bytes contain a machine address must be rejected (ComptimePointer) or relocated: the predicate guarding "
    "ComptimePointer is expanded through Ty::is_pointer/is_function to its variant set and compared with the set of "
    "address-bearing kinds (those convert.rs finalises to a pointer-sized value or that carry a pointer member), including "
    "through aggregate members; (b) engine A: in compile_file the post-check eval_comptime_blocks(find_comptimes()) dominates "
    "compile_obj/compile_jit and fills the results map they receive, and in the code generator's Expr::Comptime arm the "
    "'result present' branch emits only constants/data (no compile_expr of the block body), so the block's side effects are not "
    "repeated at run time; (c) the capture table: the Rust integer/float type used to call the JIT'd function has exactly the "
    "width of the Cranelift return type, IntBytes re-serialises at the same width, and the value is re-materialised with the "
    "block's own final type; (d) the comptime expression and its body carry one type: infer_expr gives the expression the "
    "body's inferred type and replace_weak_tys retypes the body with the expression's new type on every path (the JIT "
    "evaluates the body at the body's type, the binary reads the bytes back at the expression's type).")
NOT_DECIDED = [
    "that the JIT and the ahead-of-time pipeline compute equal values for the same code (same code generator; that is C01/C08)",
    "comptime blocks inside generic (polymorphic) function bodies (find_comptimes ends in todo!(): reported under C06)",
]
ASSUMPTIONS = ["JIT memory is freed after evaluation (module.free_memory), so any captured address dangles"]

ADDRESS_BEARING = {
    "String": "pointer to the characters", "Pointer": "address", "RawPtr": "address", "Slice": "(len, pointer)", "RawSlice": "(len, pointer)",
    "Any": "(type id, pointer)", "ConcreteFunction": "code address", "FunctionPointer": "code address",
}


def matches_set(ctx, name):
    f = ctx.syn.fn("Ty::" + name, "hir/src/common/ty.rs")
    ms = [x for x in walk(f.body) if x.get("k") == "macro" and x["name"] == "matches"]
    if not ms:
        raise LookupError("matches! in Ty::%s" % name)
    looks_through = canon(ms[0]["e"]) == "self.absolute_ty()"
    return {synq.last_seg(synq.pat_head(a)) for a in synq.or_alternatives(ms[0]["p"])}, looks_through, f


def r04a(ctx, run):
    inf = ctx.syn.fn("GlobalInferenceCtx::infer_expr", "hir_ty/src/globals.rs")
    guards = [x for x in walk(inf.body) if x.get("k") == "if" and "TyDiagnosticKind::ComptimePointer" in canon(x["t"])]
    if len(guards) != 1:
        raise LookupError("guard of ComptimePointer: %d" % len(guards))
    g = guards[0]
    cond = canon(g["c"])
    preds = re.findall(r"ty\.(is_\w+)\(\)", cond)
    rejected = set()
    recursive = False
    for p in preds:
        s, through, f = matches_set(ctx, p)
        rejected |= s
    # sanity: the reference kinds are pointer-like in convert.rs
    cs = ctx.syn.fn("calc_single", "codegen/src/convert.rs")
    ms = [x for x in synq.matches_on(cs.body) if "as_ref" in canon(x["e"])]
    finals = {}
    for h, p, gg, b, arm in synq.match_table(ms[0]):
        finals[synq.last_seg(h)] = "Pointer" if "FinalTy::Pointer(ptr_ty)" in canon(b) else "other"
    for k in ADDRESS_BEARING:
        run.check(finals.get(k) == "Pointer", cs.site(), "reference: Ty::%s is represented by a pointer-sized value (%s)" % (k, ADDRESS_BEARING[k]), "calc_single", "ref:" + k, cs.file, cs.ln,
                  "reference table out of date: Ty::%s is no longer finalised to a pointer" % k)
    missing = sorted(set(ADDRESS_BEARING) - rejected)
    site = inf.site(g["ln"])
    F = "GlobalInferenceCtx::infer_expr"
    # one finding per kind (so that a known finding for one kind never hides the loss of another)
    for k in sorted(ADDRESS_BEARING):
        if k in rejected:
            run.ok(site, "ComptimePointer guard rejects Ty::%s results (%s)" % (k, ADDRESS_BEARING[k]))
        else:
            run.finding(F, "comptime-address-kind:" + k, inf.file, g["ln"],
                        "the ComptimePointer guard `%s` rejects only %s; a result of kind Ty::%s also contains an address of the JIT's memory (%s), which is freed after evaluation: "
                        "the final binary embeds a dangling pointer" % (cond, sorted(rejected), k, ADDRESS_BEARING[k]))
    # aggregates: the guard must look into members (or eval must relocate)
    looks_into_members = any(w in cond for w in ("contains_pointer", "has_pointer", "any_member", "walk"))
    relocates = False
    ev = ctx.syn.fn("eval_comptime_blocks", "codegen/src/compiler/comptime.rs")
    relocates = any(w in canon(ev.body) for w in ("relocat", "deep_copy", "copy_pointee"))
    if looks_into_members or relocates:
        run.ok(site, "aggregate results are checked/relocated member-wise")
    else:
        run.finding(F, "comptime-address-members", inf.file, g["ln"],
                    "the ComptimePointer guard looks only at the result's top-level type and eval_comptime_blocks copies size() raw bytes: a struct/array/optional/error-union result "
                    "with a pointer, slice or string member embeds a dangling address")


def r04b(ctx, run):
    F = ctx.facts
    fn = F.fn("capy::compile_file")
    CF = "capy::compile_file"
    evals = [c for c in fn.calls() if short(c.callee) == "eval_comptime_blocks" and c.callee.startswith("codegen::")]
    gens = [c for c in fn.calls() if short(c.callee) in ("compile_obj", "compile_jit") and c.callee.startswith("codegen::")]
    if not evals or len(gens) < 2:
        raise LookupError("eval_comptime_blocks / compile_obj / compile_jit in compile_file")
    ev = evals[0]
    src = fn.chain_operand(ev.args[1], depth=10)
    run.check(FA.chain_has_call(src, "find_comptimes"), ev.site(), "post-check evaluation covers world_bodies.find_comptimes()", CF, "eval-all", ev.file, ev.ln,
              "every comptime block of the program (find_comptimes) must be evaluated before code generation")

    def base_local(ch):
        for n in walk_chain(ch):
            if n.get("var"):
                return n["var"]
            if n.get("kind") in ("phi", "undef", "cut") and n.get("name"):
                return n["name"]
        return None
    res_ev = base_local(fn.chain_operand(ev.args[2], depth=6))
    for g in gens:
        run.check(fn.dominates(ev.bb, g.bb), g.site(), "codegen::%s is dominated by the comptime evaluation" % short(g.callee), CF, "eval-before:" + short(g.callee), g.file, g.ln,
                  "codegen::%s can run before all comptime blocks were evaluated: their code would be emitted into the binary and run at run time" % short(g.callee))
        res_g = base_local(fn.chain_operand(g.args[6], depth=6))
        run.check(res_ev is not None and res_ev == res_g, g.site(), "codegen::%s receives the results map that was filled (%s)" % (short(g.callee), res_g), CF, "same-map:" + short(g.callee),
                  g.file, g.ln, "codegen::%s receives `%s` but the evaluation filled `%s`" % (short(g.callee), res_g, res_ev))
    # the codegen arm
    sfn = ctx.syn.fn("FunctionCompiler::compile_expr_with_args", "codegen/src/compiler/functions.rs")
    arm = None
    for m in synq.matches_on(sfn.body):
        for h, p, g, b, a in synq.match_table(m):
            if h.endswith("Expr::Comptime"):
                arm = (b, a)
    if arm is None:
        raise LookupError("Expr::Comptime arm")
    body = arm[0]
    iff = [x for x in walk(body) if x.get("k") == "if" and canon(x["c"]) == "let Some(result) = self.comptime_results.get(ctc)"]
    FCN = "FunctionCompiler::compile_expr_with_args"
    if len(iff) != 1:
        run.finding(FCN, "comptime-arm-shape", sfn.file, arm[1]["ln"], "Expr::Comptime arm no longer branches on self.comptime_results.get(ctc)")
        return
    then = iff[0]["t"]
    bad = [x for x in walk(then) if x.get("k") == "mcall" and x["m"] in ("compile_expr", "compile_expr_with_args", "store_expr_in_memory", "compile_and_cast", "compile_stmt")]
    run.check(not bad, sfn.site(iff[0]["ln"]), "result present: only constants / data are emitted (no compilation of the block body)", FCN, "no-reexec", sfn.file, iff[0]["ln"],
              "when a comptime result is available the block body must not be compiled again (its side effects would run at run time): %s" % [canon(x)[:40] for x in bad])
    m = [x for x in walk(then) if x.get("k") == "match" and canon(x["e"]) == "result"]
    kinds = sorted(synq.last_seg(h) for h, p, g, b, a in synq.match_table(m[0])) if m else []
    run.check(kinds == ["Data", "Float", "Integer", "Type", "Void"], sfn.site(iff[0]["ln"]), "all five result kinds are re-materialised: %s" % kinds, FCN, "kinds", sfn.file, iff[0]["ln"],
              "every ComptimeResult kind must be re-materialised; found %s" % kinds)
    if m:
        # each arm evaluated with a symbolic result: what is emitted must be built from the recorded value at the block's own type
        import c08
        from absint import Obj, Term, Variant, Panic, CannotEstablish, _Return
        arms = {synq.last_seg(h): (p, b, a) for h, p, g, b, a in synq.match_table(m[0])}

        class RI(c08.I):
            def __init__(self, nt):
                c08.I.__init__(self)
                self.nt = nt
                self.funcs["MemFlags::trusted"] = lambda i, a: Term("trusted")
                self.created = []

            def eval(self, e, env):
                if e.get("k") == "field" and canon(e) == "self.builder.func":
                    return Term("func")
                if e.get("k") in ("ref",) or (e.get("k") == "un" and e.get("op") in ("*", "&")):
                    return self.eval(e["e"], env)
                return c08.I.eval(self, e, env)

            def default_method(self, recv, m_, args, e):
                if m_ in ("bit_width", "bits"):
                    return c08.I.default_method(self, recv, m_, args, e)
                if isinstance(recv, Obj) and recv.name == "FinalPtr":
                    return True if m_ == "is_pointer_type" else Term(m_, recv)
                if recv is self.nt or (isinstance(recv, Obj) and recv.name == "NumberType"):
                    if m_ in ("into_real_type", "into_number_type", "unwrap", "get_final_ty"):
                        return recv if m_ != "into_real_type" else recv.fields["ty"]
                    if m_ == "is_pointer_type":
                        return False
                if m_ == "get_name":
                    return None
                if m_ == "create_global_data":
                    self.created.append(args)
                    return Term("data_id")
                if m_ in ("clone", "to_owned", "into", "unwrap"):
                    return recv
                if isinstance(recv, (Obj, Term)) and recv is not c08.BUILDER and m_ != "ins":
                    return Term(m_, recv, *args)
                return c08.I.default_method(self, recv, m_, args, e)

        def run_arm(kind, binds, nt):
            pat, body2, arm2 = arms[kind]
            it = RI(nt)
            env = {"self": Obj("self", builder=c08.BUILDER, module=Obj("module"), ptr_ty=Term("ptr_ty"), mod_dir=Term("mod_dir"), interner=Term("interner"), meta_tys=Term("meta_tys")),
                   "final_ty": nt, "ty": Term("ty"), "no_load": False, "ctc": Term("ctc"), "expr": Term("expr")}
            if not it.bind(pat, Variant("ComptimeResult::" + kind, binds), env):
                raise CannotEstablish("the %s arm's pattern does not bind a %s result" % (kind, kind))
            try:
                return it.eval(body2, env), it
            except _Return as r:
                return r.v, it
        num = Term("num")
        for cl in ("I8", "I16", "I32", "I64"):
            try:
                t, _ = run_arm("Integer", {"num": num, "bit_width": int(cl[1:])}, c08.numty(cl, False, False))
                good = isinstance(t, Term) and t.op == "iconst" and isinstance(t.args[0], Variant) and t.args[0].last == cl and t.args[1] in (num, Term("as_i64", num))
                what = c08.fmt(t)[:80]
            except (Panic, CannotEstablish) as c:
                good, what = False, "cannot establish: %s" % getattr(c, "what", c)
            run.check(good, sfn.site(m[0]["ln"]), "Integer result of a %s block re-materialised as %s" % (cl, what), FCN, "int-type:" + cl, sfn.file, m[0]["ln"],
                      "an integer result of a block of type %s is re-materialised as %s; it must be iconst(%s, num): the block's own type and the recorded value" % (cl, what, cl))
        for cl, want_op, want_arg in (("F32", "f32const", Term("as_f32", num)), ("F64", "f64const", num)):
            try:
                t, _ = run_arm("Float", {"num": num, "bit_width": int(cl[1:])}, c08.numty(cl, True, True))
                good = isinstance(t, Term) and t.op == want_op and len(t.args) == 1 and t.args[0] in (want_arg, Term("as_f64", num) if cl == "F64" else want_arg)
                what = c08.fmt(t)[:80]
            except (Panic, CannotEstablish) as c:
                good, what = False, "cannot establish: %s" % getattr(c, "what", c)
            run.check(good, sfn.site(m[0]["ln"]), "Float result of a %s block re-materialised as %s" % (cl, what), FCN, "float-type:" + cl, sfn.file, m[0]["ln"],
                      "a float result of a block of type %s is re-materialised as %s; it must be %s of the recorded value" % (cl, what, want_op))
        try:
            bytes_ = Term("bytes")
            t, it = run_arm("Data", {"0": bytes_}, Obj("FinalPtr"))
            good = len(it.created) == 1 and len(it.created[0]) >= 4 and it.created[0][2] == bytes_ and "align" in c08.fmt(it.created[0][3]) and "ty" in c08.fmt(it.created[0][3])
            what = [c08.fmt(x)[:40] for x in (it.created[0] if it.created else [])]
        except (Panic, CannotEstablish) as c:
            good, what = False, "cannot establish: %s" % getattr(c, "what", c)
        run.check(good, sfn.site(m[0]["ln"]), "Data result re-materialised as a data object of the recorded bytes with the type's alignment", FCN, "data", sfn.file, m[0]["ln"],
                  "a Data result must be emitted as a data object holding exactly the recorded bytes, aligned like the block's type; found create_global_data%s" % (what,))


def r04g(ctx, run):
    """the canonicalisation of captured bytes (zero_padding) changes nothing that is part of the value: evaluated from source on sample values
    (a struct with gaps, an array of it, an enum with explicit discriminants, a tagged optional, an error union, a distinct of a struct) against a
    reference byte mask computed from the layouts - every byte of the value is kept, every other byte is zero"""
    from symint import SymInterp
    from absint import Obj, Term, Variant, Panic, CannotEstablish, _Return
    CT = "codegen/src/compiler/comptime.rs"
    zp = ctx.syn.fn("zero_padding", CT)
    V = Variant

    class BV:
        """a mutable window into a byte buffer"""
        def __init__(self, buf, lo, hi):
            self.buf, self.lo, self.hi = buf, lo, hi

    inner = {st["name"]: st for st in zp.body["s"] if st.get("k") == "fn"}

    class NF:
        def __init__(self, node):
            self.body = node["b"]
            self.node = node

        def param_names(self):
            return [p_["p"].get("n") for p_ in self.node["params"]]
    u8, u16, u64 = V("Ty::UInt", {"0": 8}), V("Ty::UInt", {"0": 16}), V("Ty::UInt", {"0": 64})

    def mem(n, t):
        return Obj("MemberTy", name=Term(n), ty=t)
    S = V("Ty::ConcreteStruct", {"uid": 1, "members": [mem("a", u8), mem("b", u64), mem("c", u8)]})           # a@0 b@8 c@16, size 17, stride 24
    A2 = V("Ty::ConcreteArray", {"size": 2, "sub_ty": S})                                                          # items at 0 and 24, size 41
    va = V("Ty::EnumVariant", {"enum_uid": 2, "variant_name": Term("A"), "uid": 3, "sub_ty": u64, "discriminant": 5})
    vb = V("Ty::EnumVariant", {"enum_uid": 2, "variant_name": Term("B"), "uid": 4, "sub_ty": u16, "discriminant": 9})
    E = V("Ty::Enum", {"uid": 2, "variants": [va, vb]})                                                            # payload 0..8, tag at 8, size 9
    O = V("Ty::Optional", {"sub_ty": u16})                                                                          # payload 0..2, tag at 2, size 3
    EU = V("Ty::ErrorUnion", {"error_ty": u8, "payload_ty": u64})                                                   # payload 0..8, tag at 8, size 9
    D = V("Ty::Distinct", {"uid": 9, "sub_ty": S})
    OS = V("Ty::Optional", {"sub_ty": S})                                                                           # payload 0..17, tag at 17, size 18
    T = V("Ty::ConcreteStruct", {"uid": 21, "members": [mem("tag", u8), mem("weight", u64)]})                 # tag@0 weight@8, size 16 = stride 16, 7 bytes of padding INSIDE
    A3 = V("Ty::ConcreteArray", {"size": 3, "sub_ty": T})                                                          # items at 0, 16, 32: no gap between items, gaps inside each
    ST = V("Ty::ConcreteStruct", {"uid": 22, "members": [mem("table", A3), mem("n", u8)]})                         # table@0, n@48, size 49
    layout = {
        repr(T): dict(size=16, stride=16, offsets=[0, 8]), repr(A3): dict(size=48, stride=48), repr(ST): dict(size=49, stride=56, offsets=[0, 48]),
        repr(u8): dict(size=1, stride=1), repr(u16): dict(size=2, stride=2), repr(u64): dict(size=8, stride=8),
        repr(S): dict(size=17, stride=24, offsets=[0, 8, 16]), repr(A2): dict(size=41, stride=48), repr(E): dict(size=9, stride=16, discr=8), repr(va): dict(size=8, stride=8),
        repr(vb): dict(size=2, stride=2), repr(O): dict(size=3, stride=4, discr=2), repr(EU): dict(size=9, stride=16, discr=8), repr(D): dict(size=17, stride=24),
        repr(OS): dict(size=18, stride=24, discr=17),
    }
    smask = [0] + list(range(8, 17))
    tmask = [0] + list(range(8, 16))
    # (name, type, set of offsets that belong to the value for the given tag byte, (tag offset, tag value) or None)
    samples = [
        ("struct {u8, u64, u8}", S, set(smask), None),
        ("[2]struct {u8, u64, u8}", A2, set(smask) | {24 + x for x in smask}, None),
        ("enum {A: u64 | 5, B: u16 | 9} holding A", E, set(range(0, 9)), (8, 5)),
        ("enum {A: u64 | 5, B: u16 | 9} holding B", E, {0, 1, 8}, (8, 9)),
        ("?u16 holding a value", O, {0, 1, 2}, (2, 1)), ("?u16 holding nil", O, {2}, (2, 0)),
        ("u8!u64 holding the payload", EU, set(range(0, 9)), (8, 1)), ("u8!u64 holding the error", EU, {0, 8}, (8, 0)),
        ("distinct struct", D, set(smask), None),
        ("?struct holding a value", OS, set(smask) | {17}, (17, 1)),
        ("struct {u8, u64} (size = stride, padding inside)", T, set(tmask), None),
        ("[3]struct {u8, u64} (items tightly packed, padding inside each item)", A3, {16 * q + x for q in range(3) for x in tmask}, None),
        ("struct {[3]struct {u8, u64}, u8}", ST, {16 * q + x for q in range(3) for x in tmask} | {48}, None),
    ]

    class ZI(SymInterp):
        def eval(self, e, env):
            k = e["k"]
            if k in ("ref",) or (k == "un" and e.get("op") in ("*", "&")):
                return self.eval(e["e"], env)
            if k == "cast":
                return self.eval(e["e"], env)
            if k == "index":
                b = self.eval(e["e"], env)
                if isinstance(b, BV):
                    if e["i"].get("k") == "range":
                        lo = self.eval(e["i"]["lo"], env) if e["i"].get("lo") is not None else 0
                        hi = self.eval(e["i"]["hi"], env) if e["i"].get("hi") is not None else b.hi - b.lo
                        if not (0 <= lo <= hi <= b.hi - b.lo):
                            raise Panic("slice %d..%d out of a window of %d bytes" % (lo, hi, b.hi - b.lo))
                        return BV(b.buf, b.lo + lo, b.lo + hi)
                    i = self.eval(e["i"], env)
                    if not (0 <= i < b.hi - b.lo):
                        raise Panic("index %d out of a window of %d bytes" % (i, b.hi - b.lo))
                    return b.buf[b.lo + i]
            if k == "call" and e["f"].get("k") == "path":
                nm = e["f"]["p"].rsplit("::", 1)[-1]
                if nm in inner or nm == "zero_padding":
                    args = [self.eval(a, env) for a in e["a"]]
                    f = NF(inner[nm]) if nm in inner else zp
                    return self.inline(f, args)
            return super().eval(e, env)

        def default_method(self, recv, m, args, e):
            if isinstance(recv, BV):
                if m == "len":
                    return recv.hi - recv.lo
                if m == "fill":
                    for i in range(recv.lo, recv.hi):
                        recv.buf[i] = args[0]
                    return None
                if m == "get":
                    return recv.buf[recv.lo + args[0]] if 0 <= args[0] < recv.hi - recv.lo else None
            if isinstance(recv, Variant) and recv.path.startswith("Ty::"):
                L = layout.get(repr(recv))
                if m in ("size", "stride") and L:
                    return L[m]
                if m == "struct_layout":
                    return Obj("StructLayout", offs=L["offsets"]) if L and "offsets" in L else None
                if m == "enum_layout":
                    return Obj("EnumLayout", d=L["discr"]) if L and "discr" in L else None
                if m == "is_tagged_union":
                    return bool(L and "discr" in L)
                if m in ("as_ref", "clone", "deref"):
                    return recv
            if isinstance(recv, Obj) and recv.name == "StructLayout" and m == "offsets":
                return list(recv.fields["offs"])
            if isinstance(recv, Obj) and recv.name == "EnumLayout" and m == "discriminant_offset":
                return recv.fields["d"]
            if m == "copied" or m == "cloned":
                return recv
            if m == "then_some" and isinstance(recv, bool):
                return args[0] if recv else None
            if m in ("min", "max") and isinstance(recv, int) and isinstance(args[0], int):
                return min(recv, args[0]) if m == "min" else max(recv, args[0])
            return super().default_method(recv, m, args, e)
    n = 0
    for name, ty, keep, tag in samples:
        size = layout[repr(ty)]["size"]
        buf = [0xA0 + (i % 16) for i in range(size)]
        if tag:
            buf[tag[0]] = tag[1]
        orig = list(buf)
        it = ZI(macros={"matches": None} if False else {})
        try:
            try:
                it.inline(zp, [ty, BV(buf, 0, size)])
            except _Return:
                pass
        except (Panic, CannotEstablish) as c:
            run.finding("zero_padding", "canonical:" + name, zp.file, zp.ln, "cannot establish what zero_padding does to a %s: %s" % (name, getattr(c, "what", c)))
            continue
        n += 1
        lost = [i for i in sorted(keep) if buf[i] != orig[i]]
        dirty = [i for i in range(size) if i not in keep and buf[i] != 0]
        run.check(not lost and not dirty, zp.site(), "%s: the %d value bytes are kept, the %d other bytes are zero" % (name, len(keep), size - len(keep)), "zero_padding", "canonical:" + name,
                  zp.file, zp.ln,
                  "zero_padding on a %s: %s" % (name, "; ".join(x for x in (
                      ("bytes %s belong to the value and are overwritten (the program reads a comptime result that differs from what the block computed)" % lost) if lost else "",
                      ("bytes %s are padding and keep their (unwritten) contents" % dirty) if dirty else "") if x)))
    if n < 11:
        raise LookupError("zero_padding samples evaluated: %d" % n)


def r04h(ctx, run):
    """a constant table of comptime results: expr_to_const_data's array arm evaluated from source on model items (9 value bytes, stride 16; 5 bytes, stride
    8; 2 bytes, stride 2).  Item i's bytes must sit at i * stride - where every reader (element access = base + i * stride) looks for them - and every
    other byte must be a DEFINED byte: the data goes into the object file as it is (C21)."""
    from symint import SymInterp
    from absint import Obj, Term, Variant, Panic, CannotEstablish, _Return
    CG = "codegen/src/compiler/functions.rs"
    fn = ctx.syn.fn("FunctionCompiler::expr_to_const_data", CG)
    arm = None
    for m in synq.matches_on(fn.body):
        for h, p_, g, b, a in synq.match_table(m):
            if h and h.endswith("Expr::ArrayLiteral"):
                arm = (p_, b)
    if arm is None:
        raise LookupError("the ArrayLiteral arm of expr_to_const_data")
    UN = "<uninitialised>"

    class Buf:
        def __init__(self, cap=0, data=None):
            self.cap = cap
            self.data = data if data is not None else []

    class AI(SymInterp):
        def eval(self, e, env):
            k = e.get("k")
            if k in ("ref",) or (k == "un" and e.get("op") in ("*", "&")):
                return self.eval(e["e"], env)
            if k == "cast":
                return self.eval(e["e"], env)
            if k == "try":
                return self.eval(e["e"], env)
            if k == "index" and e["i"].get("k") == "range":
                b = self.eval(e["e"], env)
                if isinstance(b, Buf):
                    lo = self.eval(e["i"]["lo"], env) if e["i"].get("lo") is not None else 0
                    hi = self.eval(e["i"]["hi"], env) if e["i"].get("hi") is not None else len(b.data)
                    if not (0 <= lo <= hi <= len(b.data)):
                        raise Panic("range %s..%s out of %d bytes" % (lo, hi, len(b.data)))
                    return ("view", b, lo, hi)
            if k == "macro" and e.get("name") == "vec" and e.get("tokens") and ";" in e["tokens"]:
                val, cnt = e["tokens"].split(";", 1)
                n_ = self.eval_text(cnt.strip(), env)
                return Buf(n_, [int(val.strip().rstrip("u8").rstrip("_") or 0)] * n_)
            return super().eval(e, env)

        def eval_text(self, txt, env):
            # `a * b.len()` style counts: evaluate through the names of the environment
            import re as _re
            t = _re.sub(r"\bas\s+usize\b", "", txt)
            t = _re.sub(r"(\w+)\s*\.\s*len\s*\(\s*\)", lambda m_: str(len(env[m_.group(1)])), t)
            t = _re.sub(r"[A-Za-z_]\w*", lambda m_: str(env[m_.group(0)]) if m_.group(0) in env else m_.group(0), t)
            return int(eval(t, {"__builtins__": {}}, {}))

        def default_method(self, recv, m, args, e):
            if isinstance(recv, Buf):
                if m in ("as_ptr", "as_mut_ptr"):
                    return ("ptr", recv, 0)
                if m == "capacity":
                    return recv.cap
                if m == "len":
                    return len(recv.data)
                if m == "set_len":
                    n_ = args[0]
                    if n_ > recv.cap:
                        raise Panic("set_len beyond the capacity")
                    recv.data = (recv.data + [UN] * n_)[:n_] if len(recv.data) < n_ else recv.data[:n_]
                    return None
                if m in ("iter", "into_iter", "to_vec", "as_slice"):
                    return list(recv.data)
                if m == "extend":
                    recv.data += list(args[0])
                    recv.cap = max(recv.cap, len(recv.data))
                    return None
                if m == "extend_from_slice":
                    src_ = args[0]
                    recv.data += list(src_[1].data[src_[2]:src_[3]]) if isinstance(src_, tuple) and src_[0] == "view" else list(src_.data if isinstance(src_, Buf) else src_)
                    recv.cap = max(recv.cap, len(recv.data))
                    return None
                if m == "resize":
                    n_, v = args
                    recv.data = (recv.data + [v] * n_)[:n_]
                    recv.cap = max(recv.cap, n_)
                    return None
                if m in ("into", "into_boxed_slice", "clone"):
                    return recv
            if isinstance(recv, tuple) and recv and recv[0] == "ptr" and m == "add":
                return ("ptr", recv[1], recv[2] + args[0])
            if isinstance(recv, tuple) and recv and recv[0] == "view" and m == "copy_from_slice":
                _, b, lo, hi = recv
                src_ = args[0]
                vals = list(src_[1].data[src_[2]:src_[3]]) if isinstance(src_, tuple) and src_[0] == "view" else list(src_.data if isinstance(src_, Buf) else src_)
                if len(vals) != hi - lo:
                    raise Panic("copy_from_slice: %d bytes into a window of %d" % (len(vals), hi - lo))
                b.data[lo:hi] = vals
                return None
            if isinstance(recv, list) and m == "take" and isinstance(args[0], int):
                return recv[:args[0]]
            return super().default_method(recv, m, args, e)

    def copy_nonoverlapping(i, a):
        src_, dst, n_ = a
        if not (isinstance(src_, tuple) and isinstance(dst, tuple)):
            raise CannotEstablish("copy_nonoverlapping of %r" % (a,))
        sb, so = src_[1], src_[2]
        db, do = dst[1], dst[2]
        if so + n_ > len(sb.data):
            raise Panic("copy_nonoverlapping reads %d bytes from an item of %d" % (n_, len(sb.data)))
        if do + n_ > db.cap:
            raise Panic("copy_nonoverlapping writes past the capacity")
        if len(db.data) < db.cap:
            db.data = db.data + [UN] * (db.cap - len(db.data))
            db.hidden_len = True
        db.data[do:do + n_] = sb.data[so:so + n_]
        return None
    n = 0
    for size, stride, count in ((9, 16, 3), (5, 8, 2), (2, 2, 4), (17, 24, 2)):
        items = [Term("item%d" % i_) for i_ in range(count)]
        item_bytes = {repr(it_): [16 * (i_ + 1) + (b_ % 16) for b_ in range(size)] for i_, it_ in enumerate(items)}
        item_ty = Obj("Ty", size=size, stride=stride)

        class TI(AI):
            pass
        it = TI(funcs={"Vec::with_capacity": lambda i, a: Buf(a[0]), "Vec::new": lambda i, a: Buf(0), "std::ptr::copy_nonoverlapping": copy_nonoverlapping,
                       "ptr::copy_nonoverlapping": copy_nonoverlapping, "copy_nonoverlapping": copy_nonoverlapping},
                methods={"size": lambda i, r, a: r.fields["size"], "stride": lambda i, r, a: r.fields["stride"],
                         "expr_to_const_data": lambda i, r, a: Buf(size, list(item_bytes[repr(a[1])]))},
                macros={"assert_ne": lambda i, e, env: None, "assert": lambda i, e, env: None, "assert_eq": lambda i, e, env: None})
        orig_eval = it.eval

        def ev(e, env, orig_eval=orig_eval):
            if e.get("k") == "index" and e["e"].get("k") == "index" and canon(e["e"]["e"]) == "self.tys":
                return item_ty
            return orig_eval(e, env)
        it.eval = ev
        desc = "table of %d items of %d bytes (stride %d)" % (count, size, stride)
        env = {"self": Obj("self", tys=Term("tys")), "loc": Term("loc"), "items": list(items), "expr": Term("expr")}
        try:
            try:
                out = it.eval(arm[1], env)
            except _Return as r:
                out = r.v
        except (Panic, CannotEstablish) as c:
            run.finding(fn.qual, "const-table:" + desc, fn.file, fn.ln, "cannot establish the bytes of a constant %s: %s" % (desc, getattr(c, "what", c)))
            continue
        n += 1
        if not isinstance(out, Buf):
            run.finding(fn.qual, "const-table:" + desc, fn.file, fn.ln, "the array arm does not yield the byte buffer it filled (%r)" % (out,))
            continue
        data = out.data
        problems = []
        if len(data) != stride * count:
            problems.append("%d bytes instead of %d" % (len(data), stride * count))
        for i_, it_ in enumerate(items):
            got = data[i_ * stride:i_ * stride + size]
            if got != item_bytes[repr(it_)]:
                problems.append("item %d is not at offset %d = %d * stride (found %s..)" % (i_, i_ * stride, i_, got[:3]))
                break
        undefined = [j for j, b_ in enumerate(data) if b_ == UN]
        if undefined and not problems:
            problems.append("bytes %s..%s (between an item's size and its stride) are never written: whatever the allocator left there goes into the object file"
                            % (undefined[0], undefined[-1]))
        run.check(not problems, fn.site(), "%s: every item at i * stride, every other byte defined" % desc, fn.qual, "const-table:" + desc, fn.file, fn.ln,
                  "a constant %s is laid out wrongly: %s" % (desc, "; ".join(problems)))
    if n < 3:
        raise LookupError("constant tables evaluated: %d" % n)


def r04e(ctx, run):
    """every comptime block that eval_comptime_blocks runs gets a recorded result: in the evaluation loop no path from taking a block off the
    work list back to the loop head avoids `results.insert`.  (A block without a recorded result is compiled again by the code generator, into
    the binary: its side effects run a second time when the program runs.)"""
    F = ctx.facts
    fn = F.fn("codegen::compiler::comptime::eval_comptime_blocks")
    U = "codegen::compiler::comptime::eval_comptime_blocks"
    pops = [c for c in fn.calls() if short(c.callee) == "pop" and "Vec" in c.callee]
    ins = [c for c in fn.calls() if short(c.callee) == "insert" and c.args and any(n.get("kind") == "param" and n.get("name") == "results" for n in walk_chain(fn.chain_operand(c.args[0], depth=6)))]
    if not pops or not ins:
        raise LookupError("work-list pop / results.insert in eval_comptime_blocks: %d / %d" % (len(pops), len(ins)))
    lps = [(h, body) for h, body in fn.loops() if any(p.bb in body for p in pops) and any(i.bb in body for i in ins)]
    if not lps:
        raise LookupError("the evaluation loop of eval_comptime_blocks")
    h, body = min(lps, key=lambda hb: len(hb[1]))
    pop = [p for p in pops if p.bb in body][0]
    # the pop must be what decides the loop (its None side leaves)
    avoid = {i.bb for i in ins}
    # search inside the loop body only: from the pop back to the header without an insert
    seen, st, escape = set(), [pop.bb], None
    while st and escape is None:
        x = st.pop()
        for y in fn.succ[x]:
            if y not in body or y in avoid or fn.blocks[y].get("cleanup"):
                continue
            if y == h or y == pop.bb:
                escape = x
                break
            if y not in seen:
                seen.add(y)
                st.append(y)
    ln = fn.blocks[escape].get("ln") if escape is not None else None
    run.check(escape is None, pop.site(), "every iteration of the evaluation loop records a result (%d insert sites; all paths back to the loop head pass one)" % len(ins), U, "result-recorded",
              pop.file, pop.ln,
              "a path through the evaluation loop (leaving from bb%s%s) goes on to the next comptime block without results.insert: the block was run by the JIT but has no "
              "recorded result, so the code generator compiles it into the binary and its side effects happen again at run time" % (escape, (", line %s" % ln) if ln else ""))


def _eval_byte_conversion(ctx, run, g, U):
    """run a bytes -> bytes conversion from source on model integers (little endian): narrow value -> wide type"""
    from symint import SymInterp
    from absint import Obj, Term, Variant, Panic, CannotEstablish
    import c08

    class BI(SymInterp):
        def eval(self, e, env):
            if e.get("k") == "macro" and e["name"].rsplit("::", 1)[-1] == "vec":
                toks = e.get("tokens", "")
                if ";" in toks and e.get("a") is None:
                    raise CannotEstablish("vec![..; ..] not parsed")
                a = e.get("a") or []
                if e.get("repeat") or (len(a) == 2 and ";" in toks):
                    v, n_ = self.eval(a[0], env), self.eval(a[1], env)
                    return [v] * n_
                return [self.eval(x, env) for x in a]
            if e.get("k") in ("ref",) or (e.get("k") == "un" and e.get("op") in ("*", "&")):
                return self.eval(e["e"], env)
            if e.get("k") == "cast":
                return self.eval(e["e"], env)
            return super().eval(e, env)

        def default_method(self, recv, m, args, e):
            if isinstance(recv, Obj) and recv.name == "NumberType" and m == "bit_width":
                return c08.ty_bits(recv.fields["ty"])
            if isinstance(recv, list):
                if m in ("as_slice", "into_boxed_slice", "to_vec", "into_vec", "as_ref", "iter", "copied", "collect", "into"):
                    return recv
                if m == "concat":
                    return [b for part in recv for b in part]
                if m == "is_empty":
                    return not recv
                if m == "len":
                    return len(recv)
            return super().default_method(recv, m, args, e)
    names = g.param_names()
    tys = [str(p_.get("ty", "")) for p_ in g.params]
    samples = [("u16 65005 -> i64", [0xED, 0xFD], ("I16", False), ("I64", True), 65005), ("i16 -531 -> i64", [0xED, 0xFD], ("I16", True), ("I64", True), -531),
               ("u8 200 -> i32", [200], ("I8", False), ("I32", True), 200), ("i8 -56 -> i32", [200], ("I8", True), ("I32", True), -56),
               ("u32 4000000000 -> i64", list((4000000000).to_bytes(4, "little")), ("I32", False), ("I64", True), 4000000000), ("u8 7 -> u64", [7], ("I8", False), ("I64", False), 7)]
    for desc, bytes_, (fcl, fsigned), (tcl, tsigned), value in samples:
        env, number_params = {}, [n_ for n_, t_ in zip(names, tys) if "NumberType" in t_]
        for n_, t_ in zip(names, tys):
            if "[u8]" in t_ or "Vec<u8>" in t_ or "Box<[u8]>" in t_:
                env[n_] = list(bytes_)
            elif "NumberType" in t_:
                # a single NumberType parameter is the target; with two, the first is the source
                is_src = len(number_params) == 2 and n_ == number_params[0]
                env[n_] = c08.numty(fcl if is_src else tcl, False, fsigned if is_src else tsigned)
            elif "Endianness" in t_:
                env[n_] = Variant("Endianness::Little")
            elif t_.replace(" ", "") == "bool":
                env[n_] = fsigned       # a flag can only be the source's signedness (the target's is in its type)
            else:
                env[n_] = Term(n_)
        key = "const-data-conversion:%s:%s" % (g.qual, desc)
        try:
            it = BI(macros={"assert": lambda i, e, env: None, "debug_assert": lambda i, e, env: None})
            out = it.run_fn(g, env)
        except (Panic, CannotEstablish) as c:
            run.finding(U, key, g.file, g.ln, "cannot establish what %s makes of %s: %s" % (g.qual, desc, getattr(c, "what", c)))
            continue
        width = c08.BITS[tcl] // 8
        want = list((value & ((1 << (8 * width)) - 1)).to_bytes(width, "little"))
        run.check(out == want, g.site(), "%s: %s keeps the value" % (g.qual, desc), U, key, g.file, g.ln,
                  "%s turns the bytes of %s into %s; the same value at the wider type is %s - a global declared wider than its comptime initialiser would hold another value in the "
                  "built program than the block computed" % (g.qual, desc.split(" ->")[0], out, want))


def r04f(ctx, run):
    """a global's constant data is WRITTEN at the type of its initialiser (expr_to_const_data consults the initialiser's own type) and READ at the
    global's declared type (compile_global loads at tys.sig).  When the checker accepted the initialiser through an implicit conversion - a
    comptime block of type i32 for a global annotated i64, T for ?T - the two differ.  Necessary: on the way from expr_to_const_data to
    create_global_data the bytes pass a step that is also given the declared type (a conversion), or the data object is only created under a test
    that relates the initialiser's type to the declared type."""
    F = ctx.facts
    fn = F.fn("codegen::compiler::functions::FunctionCompiler::compile_global_binding_data")
    U = "codegen::compiler::functions::FunctionCompiler::compile_global_binding_data"
    mk = [c for c in fn.calls() if short(c.callee) == "create_global_data"]
    if len(mk) != 1:
        raise LookupError("create_global_data in compile_global_binding_data: %d" % len(mk))
    c = mk[0]
    data = None
    for a in c.args:
        ch = fn.chain_operand(a, depth=12)
        if FA.chain_has_call(ch, "expr_to_const_data"):
            data = ch
    if data is None:
        raise LookupError("the data argument of create_global_data does not come from expr_to_const_data")

    def mentions_declared(ch):
        return any(n.get("kind") == "call" and short(n["callee"]) in ("sig", "global_sig", "declared_ty") for n in walk_chain(ch))
    # (a) a conversion on the data path: a call other than expr_to_const_data whose arguments include the declared type
    conv = [n for n in walk_chain(data) if n.get("kind") == "call" and short(n["callee"]) != "expr_to_const_data" and any(mentions_declared(a) for a in n.get("args", []))]
    # (b) the creation is guarded by a test relating the two types
    guard = []
    for d, ch, sides in fn.conditions_of(c.bb, limit=12):
        if mentions_declared(ch) and any(n.get("kind") == "call" and short(n["callee"]) in ("index", "expr_ty", "get") for n in walk_chain(ch)):
            guard.append(d)
    # a conversion on the bytes themselves is evaluated from source on model values: the result must be the bytes of the same VALUE at the declared type.
    # (An unsigned 16-bit 65005 widened to a signed 64-bit type is 65005, not -531: the source's signedness decides how the new bytes are filled.)
    for cv in conv:
        name = short(cv["callee"])
        cands = [g for g in ctx.syn.fns_in("codegen/src/compiler/comptime.rs") + ctx.syn.fns_in("codegen/src/compiler/functions.rs") + ctx.syn.fns_in("codegen/src/compiler/mod.rs")
                 if g.body is not None and not g.in_test and g.qual.rsplit("::", 1)[-1] == name]
        if len(cands) != 1:
            run.finding(U, "const-data-conversion:" + name, c.file, c.ln, "the bytes of a global pass through %s, which the analysis cannot locate (%d candidates): not established that the "
                        "value is kept" % (name, len(cands)))
            continue
        if not any(("[u8]" in str(p_.get("ty", "")) or "Vec<u8>" in str(p_.get("ty", ""))) for p_ in cands[0].params):
            continue        # not a conversion of the bytes (a helper that only looks at the types)
        _eval_byte_conversion(ctx, run, cands[0], U)
    if conv or guard:
        run.ok(c.site(), "constant data of a global is converted to / tested against the declared type (%s)" % ("conversion: " + short(conv[0]["callee"]) if conv else "guard at bb%d" % guard[0]))
    else:
        run.finding(U, "const-data-at-initialiser-type", c.file, c.ln,
                    "the data object of a global is created from expr_to_const_data's bytes (written at the initialiser's own type) without any step that is given the declared "
                    "type, and is later loaded at the declared type: `m : i64 : comptime { x : i32 = 7; x }` stores 4 bytes and reads 8 (garbage); `k : ?i32 : 5` reads nil")


BITS = {"I8": 8, "I16": 16, "I32": 32, "I64": 64, "I128": 128, "F32": 32, "F64": 64}
RBITS = {"u8": 8, "u16": 16, "u32": 32, "u64": 64, "u128": 128, "f32": 32, "f64": 64, "i8": 8, "i16": 16, "i32": 32, "i64": 64, "i128": 128}


def r04c(ctx, run):
    ev = ctx.syn.fn("eval_comptime_blocks", "codegen/src/compiler/comptime.rs")
    # the capture table is the match whose arms call run_comptime_int / run_comptime_float
    m = [x for x in walk(ev.body) if x.get("k") == "match" and sum(1 for a_ in x["arms"] if "run_comptime_" in canon(a_["b"])) >= 4]
    if len(m) != 1:
        raise LookupError("the capture table (match with run_comptime_* arms) in eval_comptime_blocks: %d" % len(m))
    # which results are read out of a register at all: only those whose final type is a NUMBER.  A pointer-class result (str, ?^T, a function) read as
    # an integer is a host address of the compiling process: it would be stored as ComptimeResult::Integer and end up in the object file
    outer = [x for x in walk(ev.body) if x.get("k") == "match" and any(any(y is m[0] for y in walk(a_["b"])) for a_ in x["arms"])]
    gate_ok, gate_why = False, "the capture table is not an arm of a match on the result's final type"
    for o in outer:
        for a_ in o["arms"]:
            if any(y is m[0] for y in walk(a_["b"])):
                scrut, pat, guard = canon(o["e"]), canon(a_["p"]), canon(a_["g"]) if a_.get("g") is not None else ""
                binder = canon(m[0]["e"]).split(".")[0]
                gate_ok = scrut.replace(" ", "").endswith("get_final_ty()") and pat.replace(" ", "").startswith("FinalTy::Number(") and not guard and binder in pat
                gate_why = "the register arm is `%s%s` of `match %s`" % (pat, (" if " + guard) if guard else "", scrut)
    run.check(gate_ok, ev.site(m[0]["ln"]), "only FinalTy::Number results are read out of a register", "eval_comptime_blocks", "capture-gate", ev.file, m[0]["ln"],
              "%s: a result is read out of the comptime function's return register only when its final type is a number (`FinalTy::Number(n)` of `get_final_ty()`); this gate "
              "admits pointer-class results (str, optional pointers), whose 'value' is an address inside the compiling process - it differs from run to run and means nothing "
              "in the built program" % gate_why)
    n = 0
    for h, p, g, b, arm in synq.match_table(m[0]):
        cl = synq.last_seg(h)
        if cl not in BITS:
            continue
        n += 1
        bc = canon(b)
        mm = re.search(r"run_comptime_(int|float)::<(\w+)>", bc) or re.search(r"fn\(\)\s*->\s*(u128)", bc)
        calls = [x for x in walk(b) if x.get("k") == "call" and x["f"].get("k") == "path" and x["f"]["p"].startswith("run_comptime_")]
        rty = None
        kind = None
        if calls:
            kind = calls[0]["f"]["p"].split("_")[-1]
            rty = (calls[0]["f"].get("g") or [None])[0]
        else:
            tms = [x for x in walk(b) if x.get("k") == "call" and x["f"].get("k") == "path" and x["f"]["p"].endswith("transmute") and x["f"].get("g")]
            for t in tms:
                mt = re.match(r"fn\(\)->(\w+)$", t["f"]["g"][-1].replace(" ", ""))
                if mt:
                    kind, rty = ("float" if mt.group(1).startswith("f") else "int"), mt.group(1)
        good = rty in RBITS and RBITS[rty] == BITS[cl] and ((kind == "float") == cl.startswith("F")) and (rty.startswith("u") or rty.startswith("f"))
        run.check(good, ev.site(arm["ln"]), "types::%s result is read back as %s (%d bits)" % (cl, rty, RBITS.get(rty, 0)), "eval_comptime_blocks", "capture:" + cl, ev.file, arm["ln"],
                  "a comptime result of Cranelift type %s is read through a Rust `%s`: width/class mismatch truncates or reinterprets the value" % (cl, rty))
    if n < 7:
        raise LookupError("capture table arms: %d" % n)
    for fname in ("run_comptime_int", "run_comptime_float"):
        f = [x for x in ctx.syn.fns_in("codegen/src/compiler/comptime.rs") if x.name == fname]
        if not f:
            raise LookupError(fname)
        c = canon(f[0].body)
        so = [x for x in walk(f[0].body) if x.get("k") == "call" and x["f"].get("k") == "path" and x["f"]["p"].endswith("size_of")]
        generic_t = bool(so) and so[0]["f"].get("g") == ["T"]
        tm = [x for x in walk(f[0].body) if x.get("k") == "call" and x["f"].get("k") == "path" and x["f"]["p"].endswith("transmute") and x["f"].get("g")]
        calls_as_t = bool(tm) and tm[0]["f"]["g"][-1].replace(" ", "") == "fn()->T"
        run.check("bit_width: ((size_of() * 8) as u8)" in c and generic_t and calls_as_t and "num: result.into()" in c, f[0].site(), "%s records the value and 8*size_of::<T>() as its width" % fname, fname, "width",
                  f[0].file, f[0].ln, "%s must record bit_width = 8 * size_of::<T>() and the unmodified value" % fname)
    # IntBytes tables
    for f in [x for x in ctx.syn.fns_in("codegen/src/compiler/comptime.rs") if x.name == "into_bytes" and x.trait == "IntBytes"]:
        for mm in [x for x in walk(f.body) if x.get("k") == "match" and canon(x["e"]) == "target_bitwidth"]:
            for h, p, g, b, arm in synq.match_table(mm):
                if p.get("k") != "p_lit":
                    continue
                w = int(p["v"])
                bc = canon(b)
                t = re.search(r"\(self as (\w+)\)", bc)
                good = t is not None and RBITS.get(t.group(1)) == w and (".to_be_bytes()" in bc or ".to_le_bytes()" in bc)
                run.check(good, f.site(arm["ln"]), "IntBytes(%s): width %d serialised as %s" % (f.impl_ty, w, t.group(1) if t else "?"), "IntBytes::into_bytes", "ser:%s:%d:%d" % (f.impl_ty, w, arm["ln"]),
                          f.file, arm["ln"], "a %d-bit value is serialised through `%s`" % (w, t.group(1) if t else bc[:30]))
    # endianness arms agree
    for f in [x for x in ctx.syn.fns_in("codegen/src/compiler/comptime.rs") if x.name == "into_bytes" and x.trait == "IntBytes"]:
        top = [x for x in walk(f.body) if x.get("k") == "match" and canon(x["e"]) == "endianness"]
        if top:
            tbl = {synq.last_seg(h): canon(b) for h, p, g, b, arm in synq.match_table(top[0])}
            good = "to_be_bytes" in tbl.get("Big", "") and "to_le_bytes" not in tbl.get("Big", "") and "to_le_bytes" in tbl.get("Little", "") and "to_be_bytes" not in tbl.get("Little", "")
            run.check(good, f.site(), "IntBytes(%s): Big -> to_be_bytes, Little -> to_le_bytes" % f.impl_ty, "IntBytes::into_bytes", "endian:" + str(f.impl_ty), f.file, f.ln,
                      "endianness arms of IntBytes::into_bytes are mixed up")


def r04d(ctx, run):
    """the comptime expression and its body carry the same type: the JIT compiles the body at the body's recorded type and
    the final binary materialises the captured bytes at the comptime expression's type"""
    import c09
    f = ctx.syn.fn("GlobalInferenceCtx::replace_weak_tys", "hir_ty/src/globals.rs")
    m, props = c09.guarded_propagations(f)
    mine = [(c, g) for h, c, g in props if h == "Comptime"]
    if not mine:
        run.finding(f.qual, "comptime-retype", f.file, m["ln"], "when a comptime expression's weak type is replaced its body is not retyped: the block is evaluated at "
                    "its default 32-bit type and the bytes are materialised at the new type")
        return
    for i, (call, guards) in enumerate(mine):
        a0, a1 = canon(call["a"][0]), canon(call["a"][1])
        # the first argument must be the comptime's body, the second the very type recorded for the comptime expression
        arm = [b for h, p, g, b, arm in synq.match_table(m) if h and synq.last_seg(h) == "Comptime"][0]
        binds = {canon(x["p"]): canon(x["init"]) for x in walk(arm) if x.get("k") == "local" and x.get("init") is not None}
        body_ok = a0.endswith(".body") or binds.get(a0, "").endswith(".body")
        run.check(body_ok and a1 == "new_ty" and not guards, f.site(call["ln"]), "comptime body retyped with the expression's new type on every path",
                  f.qual, "comptime-retype#%d" % i, f.file, call["ln"],
                  "Expr::Comptime must retype its body (`%s`) with the type recorded for the comptime expression (`%s`), unconditionally%s: otherwise the JIT "
                  "evaluates the block at another type than the one its bytes are read back as"
                  % (a0, a1, "; found guard(s) %s" % ["%s@%s" % (g[1], g[2]) for g in guards] if guards else ""))
    # inference side: the type of `comptime { body }` is the type recorded for the body (or Unknown after a diagnostic)
    def tails(e):
        k = e.get("k")
        if k == "block":
            if not e["s"]:
                return []
            last = e["s"][-1]
            if last["k"] == "expr" and not last.get("semi"):
                return tails(last["e"])
            return []
        if k == "if":
            return tails(e["t"]) + (tails(e["e"]) if e.get("e") is not None else [])
        if k == "match":
            return [t for a in e["arms"] for t in tails(a["b"])]
        return [e]
    found = 0
    for g in ctx.syn.fns_in("hir_ty/src/globals.rs"):
        if g.body is None:
            continue
        for x in synq.matches_on(g.body):
            for h, p, gg, b, arm in synq.match_table(x):
                if not (h and synq.last_seg(h) == "Comptime" and "ComptimePointer" in canon(b)):
                    continue
                found += 1
                lets = {canon(y["p"]): canon(y["init"]) for y in walk(b) if y.get("k") == "local" and y.get("init") is not None}
                tyvars = [k for k, v in lets.items() if v.startswith("self.tys[") and v.endswith("[body]")]
                leaves = [canon(t) for t in tails(b)]
                bad = [l for l in leaves if l not in tyvars and l != "Ty::Unknown.into()"]
                run.check(bool(tyvars) and leaves and not bad, g.site(arm["ln"]), "type of a comptime expression = recorded type of its body (leaves %s)" % leaves,
                          g.qual, "comptime-type", g.file, arm["ln"],
                          "the Expr::Comptime arm of inference must yield the type recorded for the block body (or Unknown after a diagnostic); yields %s" % bad)
    if not found:
        raise LookupError("Expr::Comptime arm of inference (the one reporting ComptimePointer)")


def r04i(ctx, run):
    """what is stored for one comptime block (its result, its captured data, the data object it was embedded as) is stored under a key that names THAT
    block: a ComptimeLoc (file + body + instantiation), never an arena index that a block in another file shares (shared with C16 R16.a)"""
    import c16
    c16.r16a(ctx, run)


def rules(ctx):
    return [
        Rule("R04.a", "address-bearing comptime results are rejected or relocated (top level and through aggregate members)", 16, r04a),
        Rule("R04.b", "all comptime blocks are evaluated before code generation, which receives those results and never recompiles an evaluated block", 9, r04b),
        Rule("R04.i", "tables of comptime artefacts (results, captured data, embedded data objects) are keyed by the block's full location (shared with C16 R16.a)", 8, r04i),
        Rule("R04.e", "every comptime block the JIT runs gets a recorded result (must-pass-through results.insert in the evaluation loop)", 1, r04e),
        Rule("R04.g", "the canonicalisation of captured bytes keeps every byte of the value and zeroes the rest (zero_padding evaluated on sample layouts)", 13, r04g),
        Rule("R04.h", "constant tables: item i at i * stride, every other byte defined (expr_to_const_data's array arm evaluated on model items)", 3, r04h),
        Rule("R04.f", "a global's constant data is converted to (or tested against) the declared type it is read at", 1, r04f),
        Rule("R04.d", "a comptime expression and its body are recorded at the same type (inference and weak-type replacement)", 2, r04d),
        Rule("R04.c", "capture table: read-back type width = Cranelift type width; serialisation at the recorded width", 20, r04c),
    ]

"""C23 — parsing is total, terminating and lossless (DESIGN §3 C23)."""
from core import Rule
import synq
from synq import canon, walk
import progress
import paths

PROPERTY = "C23"
TITLE = "Parsing is total, terminating and lossless"
NEEDS = ("syn", "facts")
TECHNIQUE = "static analysis: abstract interpretation of the parser over (token kind x recovery-set context) for loop progress and left recursion; who-writes and typestate rules on token_idx; token-knowledge typestate over all grammar functions (every assertion about the current token holds, bump() is never reached at the end of input); layout facts for the unsafe reinterpretation"
EXPLANATION = (
    "(a) abstract interpretation of every grammar function and Parser method (engine B, lib/progress.py): per current "
    "token kind and per reachable recovery-set context, the set of paths that consume no token is computed as a least "
    "fixpoint; a loop whose back edge is reachable from its head on such a path can spin forever; index-walking loops "
    "are discharged by a monotone-counter obligation; (b) the same summaries give the graph 'entered without having "
    "consumed a token', whose cycles are left recursion; (c) engine A who-writes: Parser::token_idx is written only by "
    "bump, skip_trivia and the look-ahead regions, each of which restores the saved index on every exit (typestate walk); "
    "the two entry points loop until EOF and leave their loop only at EOF; Sink::add_token is the only caller of "
    "SyntaxBuilder::add_token and advances by one; (d) the unsafe Vec reinterpretation is preceded by the loop asserting "
    "every event is Some and Event/Option<Event> are both one byte (layout facts from rustc); Sink::finish's raw pointer "
    "walk is preceded by the two asserts; (e) syntax-error offsets are taken from token ranges, not computed.")
NOT_DECIDED = [
    "running time being linear (the lambda/paren look-ahead rescans its input: nested parentheses are quadratic)",
    "recursion depth (stack exhaustion on deeply nested input)",
    "panics through indexing/unwrap inside Parser helpers (e.g. previous_token_range on an empty token list)",
]
ASSUMPTIONS = [
    "token ranges produced by the lexer tile the input (C22)",
    "Marker/CompletedMarker methods do not move the token cursor (they have no access to Parser::token_idx: checked by the who-writes rule)",
]

_CACHE = {}


def analyzer(ctx):
    key = ctx.tree_hash
    if key not in _CACHE:
        an = progress.Analyzer(ctx.syn, ctx.read("tokenizer.txt"))
        an.discover(["source_file", "repl_line"])
        an.rounds = an.compute_all()
        _CACHE[key] = an
    return _CACHE[key]


def r23a(ctx, run):
    an = analyzer(ctx)
    examined, findings = an.check_loops()
    fmap = {(f["fn"], f["ordinal"]): f for f in findings}
    for fname, ordinal, line, verdict in examined:
        f = an.fns[fname]
        site = f.site(line)
        if verdict == "lookahead":
            run.exempt(site, "%s loop#%d is a raw look-ahead loop" % (fname, ordinal), "discharged by the monotone-index obligation below")
            continue
        if verdict == "ok":
            run.ok(site, "%s loop#%d: every iteration consumes a token or leaves the loop, for all %d token kinds x %d contexts"
                   % (fname, ordinal, len(an.K), len([1 for (n, _) in an.contexts if n == fname])))
            continue
        fd = fmap[(fname, ordinal)]
        toks = fd["tokens"]
        t0 = toks[0]
        ck = fd["ctx"][t0]
        rs = [v for n, v in ck if isinstance(v, tuple) and v and v[0] == "set"]
        rset = sorted(rs[0][1]) if rs else []
        chain = an.chain(fname, ck)
        run.finding("parser::grammar::" + fname, "loop#%d" % ordinal, f.file, line,
                    "loop can complete an iteration without consuming a token when the current token is one of %s "
                    "(e.g. with inherited recovery set %s, reached via %s): the parser spins forever and its error list grows without bound"
                    % (toks, rset, " <- ".join(chain[:4]) or "entry"), {"tokens": toks})
    # functions that exist but were never reached from the entry points would be unanalysed: report
    unreached = [n for n in an.fns if not n.startswith("Parser::") and not any(k[0] == n for k in an.contexts)]
    for n in unreached:
        f = an.fns[n]
        has_loop = any(x.get("k") in ("loop", "while") for x in walk(f.body))
        if has_loop:
            run.finding("parser::grammar::" + n, "unreached", f.file, f.ln, "grammar function %s has a loop but is not reachable from source_file/repl_line in the call-context fixpoint: not analysed" % n)
        else:
            run.exempt(f.site(), "%s not reachable from the entry points" % n, "dead code without loops")
    # monotone-counter loops: parser.rs, sink.rs, and the look-ahead loop of parse_lambda
    counter_loops(ctx, run, an)


def counter_loops(ctx, run, an):
    """loops that walk an index: each iteration must move the index strictly towards a bound that ends the loop"""
    targets = []
    for f in ctx.syn.fns:
        if f.in_test or f.body is None:
            continue
        if f.file.endswith("parser/src/parser.rs") or f.file.endswith("parser/src/sink.rs"):
            for n in walk(f.body):
                if n.get("k") in ("loop", "while"):
                    targets.append((f, n))
    lam = ctx.syn.fn("parse_lambda", "grammar/expr.rs")
    for n in walk(lam.body):
        if n.get("k") == "loop" and any(".token_idx" in canon(x.get("l")) for x in walk(n) if x.get("k") == "bin" and x.get("op") == "+="):
            targets.append((lam, n))
    BOUNDED = ("at_raw", "peek_raw", "get_kind", "peek", "at_eof")   # accessors that answer false/None at the end of the token list
    for f, n in targets:
        body = n["b"]
        c = canon(n)
        site = f.site(n["ln"])
        name = f.qual

        # progress: every path through the body that reaches the back edge (or `continue`) moved the index by one step
        def step(node, st):
            k = node.get("k")
            if k == "bin" and node.get("op") in ("+=", "-=") and (canon(node["l"]).endswith("token_idx") or canon(node["l"]).endswith("_idx")):
                return "moved"
            if k == "mcall" and node["m"] in ("add_token", "bump") and canon(node["r"]) in ("self", "p"):
                return "moved"
            if k == "assign":
                l, r = canon(node["l"]), canon(node["r"])
                if (l.endswith("_idx") and "checked_sub(1)" in r) or (l == "current" and r == "next"):
                    return "moved"
            return st
        fall, exits = paths.run(body, "unmoved", step)
        stuck = [st for st in fall if st != "moved"] + [st for kind, label, st in exits if kind == "continue" and st != "moved"]
        leaves = [kind for kind, label, st in exits if kind in ("return", "break")]
        # bound: the walk ends
        cond = canon(n["c"]) if n["k"] == "while" else ""
        cond_src = canon(n["c"]["e"]) if n["k"] == "while" and n["c"]["k"] == "let" else cond
        bound, why = False, ""
        if any(("." + a + "(") in cond_src for a in BOUNDED):
            bound, why = True, "the loop condition reads the token through a bounds-aware accessor (false/None at the end of input)"
        elif "checked_sub(1)" in c and leaves:
            bound, why = True, "the index decreases with checked_sub and the loop is left when it reaches 0"
        elif cond == "(current != last)" and any(canon(x.get("e", {})).startswith("next = ") and "current.add(1)" in canon(x["e"]) for x in body["s"] if x["k"] == "expr") \
                and not any(x.get("k") == "continue" for x in walk(body)):
            bound, why = True, "pointer walk: current advances by one element per iteration up to `last`"
        elif n["k"] == "loop" and leaves and any(("." + a + "(") in c for a in BOUNDED):
            bound, why = True, "the body leaves the loop when a bounds-aware accessor answers None/false"
        if not stuck and bound:
            run.ok(site, "%s: index loop discharged: every iteration moves the index one step; %s" % (name, why))
        elif stuck:
            run.finding(name, "counter-loop@%s" % n["k"], f.file, n["ln"], "index-walking loop has a path through its body that does not move the index "
                        "(cannot establish termination): %s" % c[:160])
        else:
            run.finding(name, "counter-loop@%s" % n["k"], f.file, n["ln"], "index-walking loop: no bound found that ends the walk (cannot establish termination): %s" % c[:160])
    trivia_agreement(ctx, run)


def token_kinds(ctx, e, file):
    """TokenKind names mentioned in an expression/pattern, looking through named TokenSet constants of the parser crate"""
    out = set()
    consts = {it["name"]: it for f, it in ctx.syn.items_of("const") if "parser/src/" in f}
    for x in walk(e):
        if x.get("k") in ("path", "p_path", "p_ident", "p_ts") :
            pth = x.get("p") or x.get("n") or ""
            if pth.startswith("TokenKind::"):
                out.add(pth.split("::")[-1])
            elif pth in consts:
                out |= token_kinds(ctx, consts[pth]["e"], file)
    return out


def trivia_agreement(ctx, run):
    """the parser steps over exactly the token kinds that the sink adds to the tree on its own (sibling agreement):
    a kind skipped by the parser but not auto-added by the sink shifts every later token into the wrong node and
    drops the last tokens of the input from the tree"""
    ps = ctx.syn.fn("Parser::skip_trivia", "parser/src/parser.rs")
    ss = ctx.syn.fn("Sink::skip_trivia", "parser/src/sink.rs")
    loops = [n for n in walk(ps.body) if n.get("k") in ("while", "loop")]
    if len(loops) != 1:
        raise LookupError("loop of Parser::skip_trivia")
    pk = token_kinds(ctx, loops[0]["c"] if loops[0]["k"] == "while" else loops[0]["b"], ps.file)
    sk_sets = []
    for n in walk(ss.body):
        if n.get("k") == "match":
            ks = set()
            for h, p, g, b, arm in synq.match_table(n):
                if "add_token" in canon(b):
                    ks |= token_kinds(ctx, p, ss.file)
            if ks:
                sk_sets.append((n["ln"], ks))
        if n.get("k") == "while" and "add_token" in canon(n["b"]):
            sk_sets.append((n["ln"], token_kinds(ctx, n["c"], ss.file)))
    if not sk_sets:
        raise LookupError("trivia arms of Sink::skip_trivia")
    for ln, ks in sk_sets:
        run.check(ks == pk, ss.site(ln), "sink auto-adds %s = kinds the parser skips" % sorted(ks), "Sink::skip_trivia", "trivia-set@%s" % ("match" if len(ks) and ln == sk_sets[0][0] else "while"),
                  ss.file, ln, "the parser skips %s without an event but the sink adds %s on its own: tokens of the other kinds are %s" %
                  (sorted(pk), sorted(ks), "shifted into the wrong nodes and the last tokens of the input are dropped from the tree" if pk - ks else "added twice / parsed and auto-added"))
    for q in ("Parser::previous_token_range", "Parser::previous_token_kind"):
        f = ctx.syn.fn(q, "parser/src/parser.rs")
        ls = [n for n in walk(f.body) if n.get("k") == "while"]
        if len(ls) != 1:
            raise LookupError("loop of " + q)
        ks = token_kinds(ctx, ls[0]["c"], f.file)
        run.check(ks == pk, f.site(ls[0]["ln"]), "%s walks back over %s" % (q, sorted(ks)), q, "trivia-set", f.file, ls[0]["ln"],
                  "%s skips %s but skip_trivia skips %s: error positions are computed from the wrong token" % (q, sorted(ks), sorted(pk)))


def r23b(ctx, run):
    an = analyzer(ctx)
    cycles = progress.recursion_cycles(an)
    nodes = len(an.edges)
    edges = sum(len(v) for v in an.edges.values())
    run.ok("crates/parser/src/grammar/expr.rs:1", "no-consumption call graph: %d nodes, %d edges over %d token kinds" % (nodes, edges, len(an.K)))
    # per function: examined
    fns = sorted({k[0] for k in an.edges})
    for n in fns:
        f = an.fns[n]
        run.ok(f.site(), "%s: calls entered before any token is consumed are acyclic" % n)
    seen = set()
    for comp in cycles:
        names = sorted({k[0] for k in comp})
        toks = sorted({k[2] for k in comp})
        key = ",".join(names)
        if key in seen:
            continue
        seen.add(key)
        f = an.fns[names[0]]
        run.finding("parser::grammar::" + names[0], "left-recursion:" + key, f.file, f.ln,
                    "functions %s can re-enter each other without consuming a token when the current token is %s: unbounded recursion" % (names, toks[:8]))


def restore_typestate(fn, region, saved_name, cursor="token_idx"):
    """every exit of `region` happens with the cursor restored; returns list of offending (kind, line)"""
    def step(node, st):
        k = node.get("k")
        if k == "assign" and canon(node["l"]).endswith("." + cursor):
            return "restored" if canon(node["r"]) == saved_name else "moved"
        if k == "bin" and node.get("op") in ("+=", "-=") and canon(node["l"]).endswith("." + cursor):
            return "moved"
        if k == "mcall" and node["m"] == "skip_trivia":
            return st
        return st
    fall, exits = paths.run(region, "restored", step)
    bad = []
    for st in fall:
        if st != "restored":
            bad.append(("fall-through", region.get("end", region["ln"])))
    for kind, label, st in exits:
        if kind in ("return", "break") and st != "restored":
            bad.append((kind, region["ln"]))
    return bad


def r23c(ctx, run):
    F = ctx.facts
    writers = {}
    for fn in F.fns:
        if fn.crate != "parser":
            continue
        for b in fn.blocks:
            for s in b["s"]:
                p = s["p"]
                if any(x == ".token_idx" for x in p[1:]):
                    # which struct?
                    owner = fn.parent or fn.path
                    writers.setdefault(owner, []).append(s["ln"])
    allowed_parser = {"bump": "consumes one token and records AddToken", "skip_trivia": "skips trivia only",
                      "at_ahead": "look-ahead, restores", "at_eof_ahead": "look-ahead, restores", "parse_lambda": "paren/lambda look-ahead, restores",
                      "add_token": "Sink's own cursor", "new": "constructor"}
    import facts as FA
    for owner, lines in sorted(writers.items()):
        short = FA.short(FA.strip_generics(owner))
        fn = F.by_path.get(owner)
        file = fn.file if fn else "-"
        if short in allowed_parser:
            run.ok("%s:%d" % (file, lines[0]), "%s writes token_idx (%s)" % (owner, allowed_parser[short]))
        else:
            run.finding(FA.strip_generics(owner), "writes-token_idx", file, lines[0], "%s writes a token cursor; only bump / skip_trivia / the look-ahead regions may move it" % owner)
    if len(writers) < 5:
        raise LookupError("writers of token_idx found: %s" % sorted(writers))
    # bump: +1 and AddToken
    bump = ctx.syn.fn("Parser::bump", "parser/src/parser.rs")
    c = canon(bump.body)
    run.check("self.events.push(Some(Event::AddToken))" in c and "self.token_idx += 1" in c, bump.site(), "bump = AddToken event + token_idx += 1", "Parser::bump", "shape",
              bump.file, bump.ln, "bump must record exactly one AddToken and advance by one")
    # at/at_set/at_eof/kind = skip_trivia + raw peek
    for name, need in (("at", ["self.skip_trivia()", "self.at_raw(kind)"]), ("at_set", ["self.skip_trivia()", "self.peek_raw()", "set.contains(kind)"]),
                       ("at_eof", ["self.skip_trivia()", "(self.token_idx >= self.tokens.len())"]), ("kind", ["self.skip_trivia()", "self.peek_raw()"])):
        f = ctx.syn.fn("Parser::" + name, "parser/src/parser.rs")
        c = canon(f.body)
        run.check(all(x in c for x in need), f.site(), "Parser::%s tests the current non-trivia token" % name, "Parser::" + name, "shape", f.file, f.ln,
                  "Parser::%s must skip trivia and test the raw current token; the progress analysis models it that way" % name)
    # look-ahead regions restore on every exit
    for name in ("at_ahead", "at_eof_ahead"):
        f = ctx.syn.fn("Parser::" + name, "parser/src/parser.rs")
        first = f.body["s"][0]
        good = first["k"] == "local" and canon(first["init"]) == "self.token_idx"
        saved = first["p"].get("n") if good else None
        region = {"k": "block", "ln": f.ln, "end": f.end, "s": f.body["s"][1:]}
        bad = restore_typestate(f, region, saved) if good else [("no-save", f.ln)]
        run.check(not bad, f.site(), "Parser::%s restores token_idx on every exit" % name, "Parser::" + name, "restore", f.file, f.ln,
                  "Parser::%s leaves the cursor moved on: %s" % (name, bad))
    lam = ctx.syn.fn("parse_lambda", "grammar/expr.rs")
    regions = [n for n in walk(lam.body) if n.get("k") == "block" and n.get("label") and
               any(x.get("k") == "bin" and x.get("op") == "+=" and ".token_idx" in canon(x["l"]) for x in walk(n))]
    if len(regions) != 1:
        raise LookupError("look-ahead region in parse_lambda")
    reg = regions[0]
    saves = [s for s in reg["s"] if s["k"] == "local" and canon(s.get("init")) == "p.token_idx"]
    if len(saves) != 1:
        raise LookupError("saved index in parse_lambda look-ahead")
    bad = restore_typestate(lam, reg, saves[0]["p"]["n"])
    run.check(not bad, lam.site(reg["ln"]), "parse_lambda look-ahead restores token_idx on every exit (%d exits walked)" % len([x for x in walk(reg) if x.get("k") in ("return", "break")]),
              "parse_lambda", "restore", lam.file, reg["ln"], "parse_lambda's look-ahead leaves the cursor moved on: %s" % bad)
    # entry points: loop to EOF, leave only at EOF
    for name in ("source_file", "repl_line"):
        f = ctx.syn.fn(name, "parser/src/grammar.rs")
        loops = [n for n in walk(f.body) if n.get("k") in ("while", "loop", "for")]
        good = len(loops) == 1 and loops[0]["k"] == "while" and canon(loops[0]["c"]) == "!p.at_eof()"
        run.check(good, f.site(), "%s loops while !p.at_eof()" % name, name, "eof-loop", f.file, f.ln, "%s must consume input until EOF" % name)
        if good:
            leaves = []
            def scan(n, guarded):
                if isinstance(n, dict):
                    if n.get("k") == "if":
                        g2 = guarded or canon(n["c"]) == "p.at_eof()"
                        scan(n["t"], g2)
                        scan(n.get("e"), guarded)
                        scan(n["c"], guarded)
                        return
                    if n.get("k") in ("break", "return") and not guarded:
                        leaves.append(n)
                    for v in n.values():
                        if isinstance(v, (dict, list)):
                            scan(v, guarded)
                elif isinstance(n, list):
                    for v in n:
                        scan(v, guarded)
            scan(loops[0]["b"], False)
            run.check(not leaves, f.site(loops[0]["ln"]), "%s leaves its loop only at EOF" % name, name, "early-leave", f.file, loops[0]["ln"],
                      "%s can leave its loop before EOF (line %s): trailing input would be missing from the tree" % (name, [x["ln"] for x in leaves]))
    # Sink: add_token is the only caller of builder.add_token, advances by one
    sink_callers = []
    for fn in F.fns:
        if fn.crate != "parser":
            continue
        for c in fn.calls():
            if FA.strip_generics(c.callee).endswith("SyntaxBuilder::add_token"):
                sink_callers.append((fn, c))
    good = len(sink_callers) == 1 and FA.short(FA.strip_generics(sink_callers[0][0].path)) == "add_token"
    run.check(good, sink_callers[0][1].site() if sink_callers else "-", "Sink::add_token is the only caller of SyntaxBuilder::add_token", "Sink::add_token", "only-caller",
              sink_callers[0][1].file if sink_callers else "-", sink_callers[0][1].ln if sink_callers else 0, "tokens are added to the tree from %d places" % len(sink_callers))
    at = ctx.syn.fn("Sink::add_token", "parser/src/sink.rs")
    c = canon(at.body)
    good = "self.tokens.kind(self.token_idx)" in c and "self.tokens.range(self.token_idx)" in c and "self.builder.add_token(kind, range)" in c and "self.token_idx += 1" in c
    run.check(good, at.site(), "Sink::add_token adds token[token_idx] with its own range and advances by one", "Sink::add_token", "shape", at.file, at.ln,
              "Sink::add_token must add the token at its cursor with that token's range and advance by exactly one")
    fin = ctx.syn.fn("Sink::finish", "parser/src/sink.rs")
    c = canon(fin.body)
    run.check(c.count("self.skip_trivia()") >= 2, fin.site(), "Sink::finish flushes trailing trivia before the last event", "Sink::finish", "trailing-trivia", fin.file, fin.ln,
              "Sink::finish must skip trivia before processing the last event (otherwise trailing whitespace/comments are lost)")


def r23d(ctx, run):
    F = ctx.facts
    ev = F.adt("parser::event::Event")
    run.check(ev.get("size") == 1 and ev.get("option_size") == 1, "%s:%d" % (ev["file"], ev["lo"]), "size_of::<Event>() == size_of::<Option<Event>>() == 1 (rustc layout)",
              "parser::event::Event", "layout", ev["file"], ev["lo"],
              "Vec<Option<Event>> is reinterpreted as Vec<Event>: both must have the same size; rustc says %s / %s" % (ev.get("size"), ev.get("option_size")))
    parse = ctx.syn.fn("Parser::parse", "parser/src/parser.rs")
    stmts = parse.body["s"]
    ai = [i for i, s in enumerate(stmts) if s["k"] == "expr" and s["e"].get("k") == "for" and "assert!(event.is_some())" in canon(s["e"]).replace(" ", "").replace("assert!(event.is_some())", "assert!(event.is_some())")]
    ui = [i for i, s in enumerate(stmts) if "Vec::from_raw_parts" in canon(s)]
    fo = [i for i, s in enumerate(stmts) if s["k"] == "expr" and s["e"].get("k") == "for" and "is_some()" in canon(s["e"]) and "assert" in canon(s["e"])]
    good = bool(fo) and bool(ui) and fo[0] < ui[0] and canon(stmts[fo[0]]["e"]["e"]) == "&self.events"
    run.check(good, parse.site(), "every event is asserted Some before the unsafe reinterpretation", "Parser::parse", "assert-before-unsafe", parse.file, parse.ln,
              "the loop asserting event.is_some() over self.events must precede Vec::from_raw_parts")
    un = [n for n in walk(parse.body) if n.get("k") == "block" and n.get("unsafe")]
    if un:
        c = canon(un[0])
        run.check("(events.as_mut_ptr() as *mut Event)" in c and "events.len()" in c and "events.capacity()" in c, parse.site(un[0]["ln"]),
                  "from_raw_parts(ptr, len, capacity) of the same vector", "Parser::parse", "raw-parts", parse.file, un[0]["ln"], "from_raw_parts must use the original vector's ptr/len/capacity")
    md = [n for n in walk(parse.body) if n.get("k") == "call" and canon(n["f"]) == "mem::ManuallyDrop::new"]
    run.check(len(md) == 1 and canon(md[0]["a"][0]) == "self.events", parse.site(), "the original vector is wrapped in ManuallyDrop (no double free)", "Parser::parse", "manually-drop",
              parse.file, parse.ln, "self.events must be moved into ManuallyDrop before its buffer is reused")
    fin = ctx.syn.fn("Sink::finish", "parser/src/sink.rs")
    stmts = fin.body["s"]
    asserts = [i for i, s in enumerate(stmts) if s["k"] == "expr" and s["e"].get("k") == "macro" and s["e"]["name"] == "assert"]
    first_unsafe = min([i for i, s in enumerate(stmts) if any(n.get("k") == "block" and n.get("unsafe") for n in walk(s))] or [10 ** 6])
    txt = " ".join(canon(stmts[i]) for i in asserts if i < first_unsafe)
    good = "self.events.first()" in txt and "self.events.last()" in txt and "Event::StartNode" in txt and "Event::FinishNode" in txt
    run.check(good, fin.site(), "first/last event asserted before the raw pointer walk", "Sink::finish", "assert-before-unsafe", fin.file, fin.ln,
              "Sink::finish must assert that events is non-empty (first = StartNode, last = FinishNode) before `current.add(1)`")
    evf = [it for f, it in ctx.syn.items_of("item_macro", "parser/src/event.rs")]
    good = any("assert_eq_size" in it["name"] and "Event,Option<Event>,u8" in it["tokens"].replace(" ", "") for it in evf)
    run.check(good, "crates/parser/src/event.rs:1", "static assertion Event == Option<Event> == u8 present", "parser::event", "static-assert", "crates/parser/src/event.rs", 1,
              "the static size assertion guarding the unsafe reinterpretation is gone")


def r23e(ctx, run):
    allowed = {"range.end()": "end of the previous non-trivia token", "self.tokens.range(start_token).start()": "start of a real token"}
    n = 0
    for f in ctx.syn.fns_in("parser/src/parser.rs"):
        if f.body is None:
            continue
        for s in walk(f.body):
            if s.get("k") == "struct" and s["p"].endswith("SyntaxErrorKind::Missing"):
                n += 1
                off = canon(dict((x[0], x[1]) for x in s["f"])["offset"])
                good = off in allowed
                if off == "range.end()":
                    good = any(x.get("k") == "local" and canon(x["p"]) == "range" and canon(x["init"]) == "self.previous_token_range()" for x in walk(f.body))
                run.check(good, f.site(s["ln"]), "Missing{offset: %s} comes from a token range" % off, f.qual, "missing-offset", f.file, s["ln"],
                          "syntax-error offset `%s` is not taken from a token range: it can lie outside the input" % off)
            if s.get("k") == "struct" and s["p"].endswith("SyntaxErrorKind::UnexpectedToken"):
                n += 1
                rg = canon(dict((x[0], x[1]) for x in s["f"])["range"])
                run.check(rg == "self.tokens.range(self.token_idx)", f.site(s["ln"]), "UnexpectedToken range is the current token's range", f.qual, "unexpected-range", f.file, s["ln"],
                          "UnexpectedToken range `%s` is not the current token's range" % rg)
            if s.get("k") == "struct" and s["p"].endswith("SyntaxErrorKind::UnexpectedNode"):
                n += 1
                rg = canon(dict((x[0], x[1]) for x in s["f"])["range"])
                run.check(rg == "self.tokens.range(start_token).cover(self.tokens.range(end_token))", f.site(s["ln"]), "UnexpectedNode range covers two token ranges", f.qual,
                          "node-range", f.file, s["ln"], "UnexpectedNode range `%s` is not the cover of token ranges" % rg)
    if n < 4:
        raise LookupError("SyntaxErrorKind literals in parser.rs: %d" % n)


def extra_evidence(ctx, runs):
    an = analyzer(ctx)
    return {"progress_analysis": {"token_kinds": len(an.K), "functions": len(an.fns), "contexts": len(an.contexts), "summaries": len(an.summ),
                                  "fixpoint_rounds": an.rounds, "no_consumption_call_edges": sum(len(v) for v in an.edges.values())}}


SKIPPING_QUERIES = ("at", "at_set", "at_eof", "at_default_recovery_set", "kind", "peek", "at_ahead", "at_eof_ahead",
                    "expect", "expect_with_recovery_set", "expect_with_recovery_set_no_default", "expect_with_no_skip",
                    "error", "error_with_no_skip", "error_with_skip", "error_with_recovery_set", "error_with_recovery_set_no_default")


def r23f(ctx, run):
    """typestate: Parser::bump consumes the token under the raw cursor without skipping trivia, and every query (at, at_set, peek, kind,
    expect*, error*) skips trivia first.  So on every path a bump must come after a query with no other bump (or call into the grammar)
    in between - otherwise whitespace between two tokens makes the second bump add a trivia token, the sink (which adds trivia on its own)
    falls out of step and indexes past the token list.  Unless bump itself skips trivia first, which discharges the obligation at the root."""
    pf = ctx.syn.fn("Parser::bump", "parser/src/parser.rs")
    root = any(n.get("k") == "mcall" and n["m"] == "skip_trivia" and canon(n["r"]) == "self" for n in walk(pf.body))
    stmts = pf.body["s"]
    first_adv = next((i for i, st in enumerate(stmts) if any(x.get("k") == "bin" and x.get("op") == "+=" and canon(x["l"]).endswith("token_idx") for x in walk(st))), None)
    first_skip = next((i for i, st in enumerate(stmts) if any(x.get("k") == "mcall" and x["m"] == "skip_trivia" for x in walk(st))), None)
    first_event = next((i for i, st in enumerate(stmts) if "AddToken" in canon(st)), None)
    if root and first_skip is not None and first_adv is not None and first_event is not None and first_skip < first_adv and first_skip < first_event:
        run.ok(pf.site(), "Parser::bump skips trivia before it adds the token: a bump can never add a trivia token")
        return
    # what each Parser method leaves behind, from its own source: a method that may bump (directly or through another method) leaves the cursor
    # behind a consumed token ("stale": expect* consume the token they expect); one that only looks (skip_trivia / peek / at ...) leaves it "fresh"
    pm = {f.qual.rsplit("::", 1)[-1]: f for f in ctx.syn.fns_in("parser/src/parser.rs") if f.qual.startswith("Parser::") and f.body is not None and not f.in_test}

    def self_calls(f):
        return {n["m"] for n in walk(f.body) if n.get("k") == "mcall" and canon(n["r"]) == "self"}
    may_bump, looks = {"bump"}, {"skip_trivia"}
    changed = True
    while changed:
        changed = False
        for name, f in pm.items():
            cs = self_calls(f)
            if name not in may_bump and cs & may_bump:
                may_bump.add(name)
                changed = True
            if name not in looks and cs & looks:
                looks.add(name)
                changed = True
    fresh_after = {m for m in looks if m not in may_bump}
    if not {"at", "peek", "at_set"} <= fresh_after or "expect" not in may_bump:
        raise LookupError("classification of Parser methods: looking=%s consuming=%s" % (sorted(fresh_after), sorted(may_bump)))
    n_fns = 0
    for f in ctx.syn.fns:
        if f.in_test or f.body is None or "parser/src/grammar" not in f.file:
            continue
        names = f.param_names()
        if not names or names[0] != "p":
            continue
        n_fns += 1
        problems = []

        def step(node, st):
            k = node.get("k")
            if k == "mcall" and canon(node["r"]) == "p":
                if node["m"] == "bump":
                    if st != "fresh":
                        problems.append(node["ln"])
                    return "stale"
                if node["m"] in may_bump:
                    return "stale"
                if node["m"] in fresh_after:
                    return "fresh"
                return st
            if k == "macro" and node["name"].rsplit("::", 1)[-1] in ("assert", "debug_assert") and "p . at" in node.get("tokens", "").replace("p.at", "p . at"):
                return "fresh"
            if k == "call":
                # a call that is handed the parser may consume tokens: the cursor is wherever it left it
                if any(canon(a) == "p" for a in node["a"]):
                    return "stale"
            return st
        paths.run(f.body, "stale", step)
        if problems:
            run.finding("parser::grammar::" + f.qual, "bump-without-skip", f.file, min(problems),
                        "%s bumps at line(s) %s without a trivia-skipping query (at/at_set/peek/expect...) since the previous bump or grammar call: with whitespace or a comment "
                        "between the two tokens the second bump adds a trivia token, the sink falls out of step and the compiler panics (index out of bounds in Tokens)"
                        % (f.qual, sorted(set(problems))))
        else:
            run.ok(f.site(), "%s: every bump follows a trivia-skipping query" % f.qual)
    if n_fns < 20:
        raise LookupError("grammar functions taking the parser: %d" % n_fns)


# explicit panic sites of the parser crate that are NOT assertions about the current token: each one read and given a reason.
# key: (function, text of the site).  A site that is neither decided by the token analysis nor listed here is a violation.
PANIC_TRIAGED = {
    ("parse_cast", "assert_eq!(previous_ty.kind(), NodeKind::Ty)"): "argument contract, checked below: every caller passes None or a marker it completed as NodeKind::Ty",
    ("parse_struct_literal", "assert_eq!(previous_ty.kind(), NodeKind::Ty)"): "argument contract, checked below",
    ("parse_array_literal", "assert_eq!(previous_ty.kind(), NodeKind::Ty)"): "argument contract, checked below",
    ("Parser::parse", "assert!(event.is_some())"): "every Marker is completed or abandoned before it is dropped (drop bomb); not decided here (listed under not decided)",
    ("Sink::finish", "assert!(matches!(self.events.first(), Some(Event::StartNode{..})))"): "entry points open the root node first and complete it last (R23.c: entry points run to EOF)",
    ("Sink::finish", "assert!(matches!(self.events.last(), Some(Event::FinishNode)))"): "see above",
    ("Parser::error_with_recovery_set_no_default", "self.expected_syntax.take().unwrap()"): "an error is only reported after a query that recorded what was expected (at/at_set/expect*); not decided here",
    ("Marker::complete", "debug_assert!(old_event.is_none())"): "a marker position is filled once (the marker is consumed by complete/abandon)",
    ("Tokens::new", "debug_assert_eq!(kinds.len() + 1, starts.len())"): "constructor contract of the token list, established by the lexer's push pairs (C22 R22.c)",
    ("lex", "debug_assert_eq!(format!(\"{kind:?}\"), format!(\"{transmuted:?}\"))"): "guards the transmute between the two token enums (R22.b decides the variant tables agree)",
}


def _panic_sites(ctx):
    """(function qual, file, line, text) of every explicit panic site in the non-test code of the parser, token and lexer crates"""
    out = []
    for f in ctx.syn.fns:
        if f.in_test or f.body is None:
            continue
        if not (("parser/src" in f.file and "/tests" not in f.file) or f.file.endswith("token/src/lib.rs") or f.file.endswith("lexer/src/lib.rs")):
            continue
        for n in walk(f.body):
            if n.get("k") == "macro":
                nm = n["name"].rsplit("::", 1)[-1]
                if nm in ("assert", "assert_eq", "assert_ne", "debug_assert", "debug_assert_eq", "debug_assert_ne", "panic", "unreachable", "todo", "unimplemented"):
                    args = n.get("a") if isinstance(n.get("a"), list) else None
                    text = "%s!(%s)" % (nm, ", ".join(canon(a) for a in args[:2]) if args else n.get("tokens", "")[:80])
                    out.append((f.qual, f.file, n["ln"], text, n))
            if n.get("k") == "mcall" and n["m"] in ("unwrap", "expect") and canon(n["r"]) not in ("p", "self"):
                out.append((f.qual, f.file, n["ln"], canon(n), n))
    return out


def r23g(ctx, run):
    """totality, the explicit panics: every `assert!`/`panic!`/`unwrap` of the parser crate is either an assertion about the current token that the
    token-knowledge analysis (lib/tokstate.py) proves on every path for every input, or a site that was read and is listed with its reason."""
    import tokstate
    an = analyzer(ctx)
    ts = tokstate.Analysis(ctx.syn, an)
    rounds = ts.solve()
    # entry points accept every first token
    for root in ("source_file", "repl_line"):
        if root not in ts.pre:
            raise LookupError("grammar entry point %s" % root)
        missing = ts.ALL - ts.pre[root]
        f = ts.fns[root]
        run.check(not missing, f.site(), "%s: no entry assertion can fail whatever the first token is" % root, root, "entry-total:" + root, f.file, f.ln,
                  "entering %s with first token %s reaches an assertion about the current token that fails" % (root, sorted({x[0] for x in missing})[:6]))
    for fname, ln, what in ts.findings:
        f = ts.fns[fname] if fname in ts.fns else ts.pm[fname.split("::", 1)[1]]
        run.finding(("parser::grammar::" if fname in ts.fns else "parser::") + fname, "token-assert:%s" % what.split(";")[0].split(" (entered from")[0][:70], f.file, ln,
                    "%s: %s (the parser panics on such an input instead of reporting a syntax error)" % (fname, what))
    n_dec = 0
    for (fname, ln), text in sorted(ts.decided.items()):
        if not any(x[0] == fname and x[1] == ln for x in ts.findings):
            n_dec += 1
            run.ok(ts.fns[fname].site(ln), "%s: assert!(%s) holds at every call site (contract: %d of %d token pairs admitted)" % (fname, text[:60], len(ts.pre[fname]), len(ts.ALL)))
    if not any(ts.kinds.get((fn_, ln_)) == "bump-at-eof" for fn_, ln_, _ in ts.findings):
        run.ok("parser/src/grammar", "bump() is only reached with a current token: %d bump sites (those of the Parser's own methods at every call site), none at the end of input" % ts.n_bumps)
    if ts.n_bumps < 120:
        raise LookupError("bump sites walked: %d" % ts.n_bumps)
    if n_dec < 20 or ts.n_calls < 80:
        raise LookupError("token assertions decided: %d, grammar call sites checked: %d" % (n_dec, ts.n_calls))
    # the inventory: everything else must have been read
    decided_lines = {(fn, ln) for (fn, ln) in ts.decided}
    for qual, file, ln, text, node in _panic_sites(ctx):
        short_q = qual.rsplit("::", 1)[-1] if "::" in qual and not qual.startswith(("Parser::", "Sink::", "Marker::", "Tokens::")) else qual
        if (short_q, ln) in decided_lines:
            continue
        key = (short_q, text.replace(" ", "")) if False else (short_q, text)
        def norm(x):
            return x.replace(" ", "").replace("(", "").replace(")", "")
        hit = next((r for (q, t), r in PANIC_TRIAGED.items() if q == short_q and norm(t) == norm(text)), None)
        if hit:
            run.exempt("%s:%d" % (file, ln), "%s: %s" % (short_q, text[:80]), hit)
        else:
            run.finding(qual, "untriaged-panic:" + text.replace(" ", "")[:60], file, ln,
                        "%s contains `%s`: an explicit panic in the parser that is neither an assertion about the current token (decided by the token analysis) nor a site that "
                        "was read and listed with a reason - parsing must return a tree for every input" % (qual, text[:100]))
    # argument contract of the three `previous_ty` assertions: None, or a marker that was completed as NodeKind::Ty (directly, or by parse_ty, whose every
    # Some(..) result is one)
    import prov
    pty = ts.fns.get("parse_ty")
    if pty is None:
        raise LookupError("parse_ty")
    somes = [n for n in walk(pty.body) if n.get("k") == "call" and canon(n["f"]) == "Some"]
    run.check(bool(somes) and all(canon(n["a"][0]).replace(" ", "").endswith("complete(p,NodeKind::Ty)") for n in somes), pty.site(), "parse_ty: every Some(..) it returns was completed as NodeKind::Ty",
              "parser::grammar::parse_ty", "parse-ty-returns-ty", pty.file, pty.ln, "parse_ty returns a marker that was not completed as NodeKind::Ty: the callers hand it to functions that assert that kind")
    for f in ts.fns.values():
        if not any(c_ in canon(f.body) for c_ in ("parse_cast(", "parse_struct_literal(", "parse_array_literal(")):
            continue
        P = prov.Prov(f)

        def on(n, sc, f=f, P=P):
            if n.get("k") == "call" and n["f"].get("k") == "path" and n["f"]["p"].rsplit("::", 1)[-1] in ("parse_cast", "parse_struct_literal", "parse_array_literal") and len(n["a"]) >= 2:
                callee = n["f"]["p"].rsplit("::", 1)[-1]
                a = n["a"][1]
                tags = P.tags(a, sc)
                good = canon(a) == "None" or ("m:complete" in tags and "name:NodeKind::Ty" in tags) or "f:parse_ty" in tags or tags == {"param:previous_ty"}
                run.check(good, f.site(n["ln"]), "%s passes %s to %s" % (f.qual, canon(a)[:30], callee), "parser::grammar::" + f.qual, "previous-ty:%s" % callee, f.file, n["ln"],
                          "%s hands %s to %s, which asserts that a given type marker was completed as NodeKind::Ty; it is computed from %s" % (f.qual, canon(a)[:40], callee, sorted(tags)[:5]))
        P.visit(on)


def rules(ctx):
    return [
        Rule("R23.a", "every parser loop consumes a token or exits, for every token kind and every reachable recovery-set context; index loops are monotone; parser and sink agree on the trivia kinds", 30, r23a),
        Rule("R23.b", "no cycle of grammar functions entered without consuming a token (left recursion)", 10, r23b),
        Rule("R23.c", "only bump consumes; look-ahead restores the cursor on every exit; entry points run to EOF; the sink adds every token once", 16, r23c),
        Rule("R23.d", "the two unsafe blocks are guarded by their asserts and by the one-byte Event layout", 6, r23d),
        Rule("R23.f", "every bump follows a trivia-skipping query (or bump skips trivia itself): parser and sink stay in step whatever whitespace the input has", 1, r23f),
        Rule("R23.g", "explicit panics: every assertion about the current token holds on every path, and bump() is never reached at the end of input (token-knowledge typestate over all grammar functions); every other panic site is listed with a reason", 41, r23g),
        Rule("R23.e", "syntax-error locations are token ranges", 4, r23e),
    ]

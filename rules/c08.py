"""C08 — numeric operations and casts: instruction selection (DESIGN §3 C08)."""
from core import Rule
from absint import Interp, Obj, Term, Variant, Panic, CannotEstablish
import synq
from synq import canon

PROPERTY = "C08"
TITLE = "Integer and float operations and casts have exact two's-complement semantics"
NEEDS = ("syn",)
EXPLANATION = (
    "Static decision-tree extraction (engine B, abstract evaluation of the compiler's own source over the finite "
    "domain float? x signed? x bit-width x operator): for every leaf of compile_num_binary, cast_num and "
    "finalize_int the Cranelift instruction / type chosen is compared with the instruction whose documented "
    "Cranelift semantics equal the property's semantics (sdiv/udiv, srem/urem, sshr/ushr, Signed*/Unsigned* "
    "condition codes, sextend/uextend by SOURCE signedness, ireduce, fcvt_from_{s,u}int on the un-narrowed "
    "integer, fcvt_to_{s,u}int_sat to a type at least as wide as the target, fpromote/fdemote). Decides the "
    "selection, not Cranelift's implementation of the selected instructions.")
NOT_DECIDED = [
    "Cranelift's implementation of the selected instructions (backend, outside the analysed crates)",
    "Ty::max's choice of the operand type for mixed-type binary expressions (value/type-universe level)",
    "comptime evaluation uses the same code generator through the JIT; agreement JIT vs AOT is not decided",
]
ASSUMPTIONS = [
    "Cranelift instruction semantics are as documented (sextend sign-extends, fcvt_to_sint_sat truncates toward zero and saturates, ...)",
    "all numeric casts go through cast_num and all numeric binary operators through compile_num_binary (callers enumerated in evidence)",
]

BITS = {"I8": 8, "I16": 16, "I32": 32, "I64": 64, "I128": 128, "F32": 32, "F64": 64}


class BuilderMarker:
    def __repr__(self):
        return "builder"


BUILDER = BuilderMarker()


def ty_bits(v):
    if isinstance(v, Variant) and v.last in BITS:
        return BITS[v.last]
    raise CannotEstablish("bits of %r" % (v,))


class I(Interp):
    def eval(self, e, env):
        # struct update syntax: `NumberType { ty: x, ..base }` takes the remaining fields from base
        if e.get("k") == "struct" and e.get("rest") is not None:
            base = self.eval(e["rest"], env)
            if isinstance(base, Obj):
                fields = dict(base.fields)
                fields.update({f[0]: self.eval(f[1], env) for f in e["f"]})
                return Obj(base.name, **fields)
        return Interp.eval(self, e, env)

    def default_method(self, recv, m, args, e):
        if m == "ins":
            return BUILDER
        if recv is BUILDER:
            return Term(m, *args)
        if m == "bit_width" and isinstance(recv, Obj):
            return ty_bits(recv.fields["ty"])
        if m == "bits":
            return ty_bits(recv)
        if m in ("get_final_ty", "into_number_type"):
            return recv
        return Interp.default_method(self, recv, m, args, e)


def numty(cl, float_, signed):
    return Obj("NumberType", ty=Variant("types::" + cl), float=float_, signed=signed)


def fmt(t):
    if isinstance(t, Term):
        return "%s(%s)" % (t.op, ", ".join(fmt(a) for a in t.args))
    if isinstance(t, Variant):
        return t.last
    return repr(t)


# ---- R08.a --------------------------------------------------------------------------------------
INT_EXPECT = {
    "Add": ("iadd",), "Sub": ("isub",), "Mul": ("imul",),
    "Div": ("sdiv", "udiv"), "Mod": ("srem", "urem"),
    "Lt": ("icmp:SignedLessThan", "icmp:UnsignedLessThan"),
    "Gt": ("icmp:SignedGreaterThan", "icmp:UnsignedGreaterThan"),
    "Le": ("icmp:SignedLessThanOrEqual", "icmp:UnsignedLessThanOrEqual"),
    "Ge": ("icmp:SignedGreaterThanOrEqual", "icmp:UnsignedGreaterThanOrEqual"),
    "Eq": ("icmp:Equal",), "Ne": ("icmp:NotEqual",),
    "BAnd": ("band",), "BOr": ("bor",), "Xor": ("bxor",),
    "LShift": ("ishl",), "RShift": ("sshr", "ushr"),
}
FLOAT_EXPECT = {
    "Add": "fadd", "Sub": "fsub", "Mul": "fmul", "Div": "fdiv",
    "Lt": "fcmp:LessThan", "Gt": "fcmp:GreaterThan", "Le": "fcmp:LessThanOrEqual",
    "Ge": "fcmp:GreaterThanOrEqual", "Eq": "fcmp:Equal", "Ne": "fcmp:NotEqual",
}


def describe_bin(t):
    """Term -> 'op' or 'icmp:CC' if operands are (lhs, rhs) in order, else None"""
    if not isinstance(t, Term):
        return None
    L, R = Term("lhs"), Term("rhs")
    if t.op in ("icmp", "fcmp"):
        if len(t.args) == 3 and isinstance(t.args[0], Variant) and t.args[1] == L and t.args[2] == R:
            return "%s:%s" % (t.op, t.args[0].last)
        return None
    if len(t.args) == 2 and t.args[0] == L and t.args[1] == R:
        return t.op
    return None


def r08a(ctx, run):
    fn = ctx.syn.fn("FunctionCompiler::compile_num_binary")
    _, en = ctx.syn.item("enum", "BinaryOp", "hir/src/body.rs")
    ops = [v["n"] for v in en["variants"]]
    for float_ in (False, True):
        for signed in ((True,) if float_ else (True, False)):
            for op in ops:
                it = I()
                env = {"self": Obj("self", builder=BUILDER), "lhs": Term("lhs"), "rhs": Term("rhs"),
                       "ty": numty("F64" if float_ else "I32", float_, signed), "op": Variant("hir::BinaryOp::" + op)}
                what = "compile_num_binary(float=%s, signed=%s, op=%s)" % (float_, signed, op)
                site = fn.site()
                try:
                    t = it.run_fn(fn, env)
                    got = describe_bin(t)
                    shown = fmt(t)
                except Panic as p:
                    got, shown = "panic", "panic(%s)" % p.what
                if float_:
                    exp = FLOAT_EXPECT.get(op)
                    if exp is None:
                        run.exempt(site, what + " -> " + shown, "operator not defined on floats by the property")
                        continue
                    okv = got == exp
                    expd = exp
                else:
                    exp = INT_EXPECT.get(op)
                    if exp is None:
                        run.exempt(site, what + " -> " + shown, "logical operators are compiled by logical_and/logical_or")
                        continue
                    want = exp[0] if (signed or len(exp) == 1) else exp[1]
                    okv = got == want
                    expd = want
                if okv:
                    run.ok(site, what + " -> " + shown)
                else:
                    run.finding("FunctionCompiler::compile_num_binary",
                                "float=%s,signed=%s,op=%s" % (float_, signed, op), fn.file, fn.ln,
                                "%s selects %s, the property needs %s(lhs, rhs)" % (what, shown, expd))


# ---- R08.b --------------------------------------------------------------------------------------
NUMS = [("I8", False), ("I16", False), ("I32", False), ("I64", False), ("I128", False), ("F32", True), ("F64", True)]


def check_cast(fr, to, t):
    """fr/to: (class, float, signed). Returns None if ok else message."""
    val = Term("val")
    fc, ff, fs = fr
    tc, tf, tsn = to
    fb, tb = BITS[fc], BITS[tc]
    tty = Variant("types::" + tc)

    def is_ty(v, cl):
        return isinstance(v, Variant) and v.last == cl

    if ff == tf and fb == tb:
        return None if t == val else "same width and class must be the identity"
    if ff and tf:
        want = "fpromote" if fb < tb else "fdemote"
        if isinstance(t, Term) and t.op == want and len(t.args) == 2 and is_ty(t.args[0], tc) and t.args[1] == val:
            return None
        return "float->float needs %s(%s, val)" % (want, tc)
    if not ff and not tf:
        if fb < tb:
            want = "sextend" if fs else "uextend"
            why = "widening must extend by the SOURCE type's signedness (%s source)" % ("signed" if fs else "unsigned")
        else:
            want, why = "ireduce", "narrowing truncates"
        if isinstance(t, Term) and t.op == want and len(t.args) == 2 and is_ty(t.args[0], tc) and t.args[1] == val:
            return None
        return "int->int needs %s(%s, val): %s" % (want, tc, why)
    if not ff and tf:
        want = "fcvt_from_sint" if fs else "fcvt_from_uint"
        if not (isinstance(t, Term) and t.op == want and len(t.args) == 2 and is_ty(t.args[0], tc)):
            return "int->float needs %s(%s, <int>) by source signedness" % (want, tc)
        inner = t.args[1]
        if inner == val:
            return None
        ext = "sextend" if fs else "uextend"
        if isinstance(inner, Term) and inner.op == ext and inner.args[1] == val and isinstance(inner.args[0], Variant) \
                and BITS.get(inner.args[0].last, 0) > fb:
            return None
        return ("int->float must convert the integer's full value: operand must be val or %s of val to a wider type, "
                "found %s" % (ext, fmt(inner)))
    # float -> int
    want = "fcvt_to_sint_sat" if tsn else "fcvt_to_uint_sat"

    def conv(x):
        if isinstance(x, Term) and x.op == want and len(x.args) == 2 and x.args[1] == val and isinstance(x.args[0], Variant):
            return BITS.get(x.args[0].last)
        return None
    cb = conv(t)
    need = min(tb, 64)
    if cb is not None:
        if cb == tb:
            return None
        return "float->int converts to %d bits but target has %d and no adjust follows" % (cb, tb)
    if isinstance(t, Term) and len(t.args) == 2 and is_ty(t.args[0], tc):
        cb = conv(t.args[1])
        if cb is None:
            return "float->int needs %s(T, val) (by TARGET signedness), found %s" % (want, fmt(t))
        if cb < need:
            return ("float->int converts with %s to %d bits and then widens to %d: every value outside the %d-bit "
                    "range saturates although it fits the target" % (want, cb, tb, cb))
        if cb > tb and t.op == "ireduce":
            return None
        if cb < tb and t.op == ("sextend" if tsn else "uextend"):
            return None
        return "float->int adjust after conversion is %s for %d->%d bits" % (t.op, cb, tb)
    return "float->int needs %s(T, val), found %s" % (want, fmt(t))


def r08b(ctx, run):
    fn = ctx.syn.fn("cast_num", "codegen/src/compiler/mod.rs")
    types = []
    for cl, fl in NUMS:
        for s in ((True,) if fl else (True, False)):
            types.append((cl, fl, s))
    for fr in types:
        for to in types:
            it = I()
            depth = [0]

            def rec(i, a, it=it, depth=depth):
                # cast_num calling itself (a conversion in two steps): run from source again
                depth[0] += 1
                if depth[0] > 3:
                    raise Panic("cast_num recurses without end")
                try:
                    return i.run_fn(fn, dict(zip(fn.param_names(), a)))
                finally:
                    depth[0] -= 1
            it.funcs["cast_num"] = rec
            env = {"builder": BUILDER, "val": Term("val"), "cast_from": numty(*fr), "cast_to": numty(*to)}
            name = lambda x: ("f%d" % BITS[x[0]]) if x[1] else ("%s%d" % ("i" if x[2] else "u", BITS[x[0]]))
            what = "cast_num(%s -> %s)" % (name(fr), name(to))
            try:
                t = it.run_fn(fn, env)
                msg = check_cast(fr, to, t)
                shown = fmt(t)
            except Panic as p:
                msg, shown = "panics: " + p.what, "panic"
            if msg is None:
                run.ok(fn.site(), what + " -> " + shown)
            else:
                kind = ("int" if not fr[1] else "float") + "->" + ("int" if not to[1] else "float")
                run.finding("cast_num", "%s->%s" % (name(fr), name(to)), fn.file, fn.ln,
                            "%s builds %s; %s" % (what, shown, msg), {"class": kind})


# ---- R08.c --------------------------------------------------------------------------------------
def r08c(ctx, run):
    fn = ctx.syn.fn("calc_single", "codegen/src/convert.rs")
    clos = None
    for s in fn.body["s"]:
        if s["k"] == "local" and s["p"].get("n") == "finalize_int" and s["init"]["k"] == "closure":
            clos = s["init"]
    if clos is None:
        raise LookupError("finalize_int closure in calc_single")
    pnames = [p.get("n") for p in clos["params"]]
    exp = {8: "I8", 16: "I16", 32: "I32", 64: "I64", 128: "I128"}
    for bw in (8, 16, 32, 64, 128, 0, 255):
        for signed in (True, False):
            it = I()
            env = {pnames[0]: bw, pnames[1]: signed, "ptr_ty": Variant("types::PTR")}
            what = "finalize_int(bit_width=%d, signed=%s)" % (bw, signed)
            try:
                v = it.eval(clos["b"], env)
            except Panic as p:
                run.finding("calc_single::finalize_int", "bw=%d,signed=%s" % (bw, signed), fn.file, clos["ln"], what + " panics: " + p.what)
                continue
            nt = v.payload.get("0") if isinstance(v, Variant) and v.last == "Number" else None
            if not isinstance(nt, Obj):
                run.finding("calc_single::finalize_int", "bw=%d,signed=%s" % (bw, signed), fn.file, clos["ln"], what + " is not FinalTy::Number")
                continue
            ty, fl, sg = nt.fields.get("ty"), nt.fields.get("float"), nt.fields.get("signed")
            if bw == 0:
                good = ty.last == "I32" and fl is False and sg is True
                want = "I32 signed (weak ints default to i32)"
            elif bw == 255:
                good = ty.last == "PTR" and fl is False and sg == signed
                want = "pointer-width, signedness kept"
            else:
                good = ty.last == exp[bw] and fl is False and sg == signed
                want = "%s, signedness kept" % exp[bw]
            site = "%s:%d" % (fn.file, clos["ln"])
            if good:
                run.ok(site, "%s -> %s float=%s signed=%s" % (what, ty.last, fl, sg))
            else:
                run.finding("calc_single::finalize_int", "bw=%d,signed=%s" % (bw, signed), fn.file, clos["ln"],
                            "%s gives %s float=%s signed=%s; needs %s" % (what, ty.last, fl, sg, want))
    # the callers: Ty::IInt(w) -> (w, true); Ty::UInt(0) -> (0, true); Ty::UInt(w) -> (w, false); Bool/Char -> I8 unsigned
    m = [x for x in synq.matches_on(fn.body) if "as_ref" in synq.canon(x["e"])]
    if not m:
        raise LookupError("match ty.as_ref() in calc_single")
    tbl = synq.match_table(m[0])
    want = {
        "IInt": ("finalize_int(*bit_width, true)",),
        "UInt": ("finalize_int(0, true)", "finalize_int(*bit_width, false)"),
    }
    for head, pat, g, body, arm in tbl:
        v = synq.last_seg(head)
        if v in want:
            c = synq.canon(synq.strip_block(body))
            site = "%s:%d" % (fn.file, arm["ln"])
            ok = c in want[v]
            if v == "UInt":
                lit0 = synq.canon(pat) == "Ty::UInt(0)"
                ok = (c == want[v][0]) if lit0 else (c == want[v][1])
            run.check(ok, site, "Ty::%s arm -> %s" % (synq.canon(pat), c), "calc_single", "arm:" + synq.canon(pat), fn.file, arm["ln"],
                      "arm %s finalises with %s; expected one of %s" % (synq.canon(pat), c, want[v]))
        if v in ("Bool", "Char"):
            b = synq.strip_block(body)
            it = I()
            val = it.eval(b, {"ptr_ty": Variant("types::PTR")})
            nt = val.payload.get("0")
            good = nt.fields["ty"].last == "I8" and nt.fields["float"] is False and nt.fields["signed"] is False
            run.check(good, "%s:%d" % (fn.file, arm["ln"]), "Ty::%s -> I8 unsigned" % v, "calc_single", "arm:" + v, fn.file, arm["ln"],
                      "Ty::%s must finalise to an unsigned 8-bit number, got %r" % (v, nt))
        if v == "Float":
            inner = synq.strip_block(body)
            if inner["k"] != "match":
                run.finding("calc_single", "arm:Float", fn.file, arm["ln"], "Float arm is not a width match")
                continue
            for bw, cl in ((0, "F32"), (32, "F32"), (64, "F64")):
                it = I()
                val = it.eval(inner, {"bit_width": bw})
                nt = val.payload.get("0")
                good = nt.fields["ty"].last == cl and nt.fields["float"] is True
                run.check(good, "%s:%d" % (fn.file, arm["ln"]), "Ty::Float(%d) -> %s" % (bw, cl), "calc_single", "arm:Float(%d)" % bw,
                          fn.file, arm["ln"], "Ty::Float(%d) must finalise to %s float, got %r" % (bw, cl, nt))


# ---- R08.d --------------------------------------------------------------------------------------
def r08d(ctx, run):
    """every caller of cast_num / compile_num_binary is enumerated (who-may-call), and
    cast_ty_to_cranelift targets an unsigned non-float type"""
    fn = ctx.syn.fn("cast_ty_to_cranelift", "codegen/src/compiler/mod.rs")
    cs = synq.calls(fn.body, "cast_num")
    if len(cs) != 1:
        raise LookupError("cast_num call in cast_ty_to_cranelift")
    st = cs[0]["a"][3]
    flds = {f[0]: synq.canon(f[1]) for f in st.get("f", [])} if st["k"] == "struct" else {}
    run.check(flds.get("float") == "false" and flds.get("signed") == "false" and flds.get("ty") == "cast_to",
              fn.site(cs[0]["ln"]), "cast_ty_to_cranelift casts to NumberType{ty: cast_to, float:false, signed:false}",
              "cast_ty_to_cranelift", "target", fn.file, cs[0]["ln"],
              "index/exit-code casts must target an unsigned integer of the requested type, found %s" % flds)
    callers = []
    for f in ctx.syn.fns:
        if f.in_test or f.body is None or "codegen/" not in f.file:
            continue
        for c in synq.calls(f.body, "cast_num"):
            callers.append((f, c))
    for f, c in callers:
        run.ok(f.site(c["ln"]), "cast_num called from %s" % f.qual)
    nb = []
    for f in ctx.syn.fns:
        if f.in_test or f.body is None or "codegen/" not in f.file:
            continue
        for c in synq.mcalls(f.body, "compile_num_binary"):
            nb.append((f, c))
    for f, c in nb:
        run.ok(f.site(c["ln"]), "compile_num_binary called from %s" % f.qual)


def r08e(ctx, run):
    """every numeric binary expression gets its instruction from the selection table: compile_binary hands both operands (cast to the common type)
    to compile_complex_compare - which sends numbers to compile_num_binary - or to logical_and / logical_or; it emits no arithmetic of its own.
    A shortcut that emits instructions directly (a strength reduction, a fast path for literals) bypasses the signedness-aware table decided by R08.a."""
    import prov
    fn = ctx.syn.fn("FunctionCompiler::compile_binary", "codegen/src/compiler/functions.rs")
    P = prov.Prov(fn)
    results, emitted = [], []

    def on(n, sc):
        if n.get("k") == "return" and n.get("e") is not None:
            results.append((n["e"], sc, n["ln"]))
        if n.get("k") == "mcall" and n["r"].get("k") == "mcall" and n["r"]["m"] == "ins":
            emitted.append((n["m"], n["ln"]))
    P.visit(on)
    tail = [st for st in fn.body["s"] if st.get("k") == "expr" and not st.get("semi")]
    if tail:
        results.append((tail[-1]["e"], None, tail[-1]["ln"]))
    # the tail expression lives in the function's outermost block scope: resolve it by a second visit that records the scope of its node
    scopes = {}

    def on2(n, sc):
        scopes[id(n)] = sc
    P.visit(on2)
    SELECT = {"m:compile_complex_compare", "m:compile_num_binary", "m:logical_and", "m:logical_or"}
    n_res = 0
    for e, sc, ln in results:
        sc = sc or scopes.get(id(e)) or P.root
        tags = P.tags(e, sc)
        n_res += 1
        through = tags & SELECT
        const_only = "m:iconst" in tags and not any(t.startswith("m:") and t[2:] not in ("iconst", "ins", ".builder") for t in tags) and not any(t.startswith("param:") and t != "param:self" for t in tags)
        run.check(bool(through) or const_only, fn.site(ln), "result at line %d comes from %s" % (ln, sorted(through) or "a constant"), fn.qual, "result-from-selection", fn.file, ln,
                  "compile_binary returns a value that does not come from compile_complex_compare / compile_num_binary / logical_and / logical_or (computed from %s): the "
                  "instruction is chosen outside the signedness-aware selection table" % sorted(t for t in tags if t.startswith("m:"))[:8])
    other = [(m, ln) for m, ln in emitted if m != "iconst"]
    run.check(not other, fn.site(other[0][1] if other else fn.ln), "compile_binary emits no instruction of its own besides constants (%d iconst)" % len(emitted), fn.qual, "emits-arithmetic",
              fn.file, other[0][1] if other else fn.ln,
              "compile_binary emits %s itself: arithmetic belongs to compile_num_binary, where the instruction depends on the operand type's signedness (an arithmetic shift is "
              "not a signed division: -7 / 4 must be -1)" % sorted({m for m, _ in other}))
    if n_res < 4:
        raise LookupError("results of compile_binary: %d" % n_res)


def r08f(ctx, run):
    """the type an operation is PERFORMED in: wherever compile_stmt / compile_binary hand operands to the selection functions, the type that goes with
    them is the common type of the two operand types (Ty::max) - on every branch.  Doing `dest op= value` in the destination's type because "the
    result is truncated anyway" is wrong for / and %: `i8 100 /= i32 300` is 0, not 100 / 44."""
    import prov
    CG = "codegen/src/compiler/functions.rs"
    n = 0
    for qual in ("FunctionCompiler::compile_stmt", "FunctionCompiler::compile_binary"):
        fn = ctx.syn.fn(qual, CG)
        P = prov.Prov(fn)
        sites = []

        def on(nd, sc):
            if nd.get("k") == "mcall" and nd["m"] in ("compile_complex_compare", "compile_num_binary") and canon(nd["r"]) == "self" and len(nd["a"]) == 4:
                sites.append((nd, sc))
        P.visit(on)
        for nd, sc in sites:
            n += 1
            alts = P.alternatives(nd["a"][2], sc)
            bad = [a for a in alts if "m:max" not in a]
            run.check(not bad, fn.site(nd["ln"]), "%s: %s operates in the common type of its operands on all %d branch(es)" % (qual.rsplit("::", 1)[-1], nd["m"], len(alts)), fn.qual,
                      "operation-type:" + nd["m"], fn.file, nd["ln"],
                      "%s hands %s a type that, on one branch, is not the common type of the two operands (Ty::max) but computed from %s: for / and %% (and comparisons) the operation "
                      "in a narrower type gives another result (`i8 100 /= i32 300` must be 0)" % (fn.qual, nd["m"], sorted(t for t in (bad[0] if bad else set()) if not t.startswith("expr:"))[:6]))
    if n < 2:
        raise LookupError("operand hand-overs to the selection functions: %d" % n)


def rules(ctx):
    return [
        Rule("R08.a", "binary operator -> Cranelift instruction table (signedness-dependent members on the signed branch)", 27, r08a),
        Rule("R08.b", "cast_num decision tree: extension by source signedness, no narrowing before int->float, float->int converts at >= target width", 144, r08b),
        Rule("R08.c", "finalize_int width/signedness table and its callers", 20, r08c),
        Rule("R08.e", "every numeric binary expression takes its instruction from the selection table: compile_binary emits no arithmetic of its own", 5, r08e),
        Rule("R08.f", "binary operations and compound assignments are performed in the common type of their operands (Ty::max) on every branch", 2, r08f),
        Rule("R08.d", "index/exit casts target unsigned; callers of the two selection functions enumerated", 3, r08d),
    ]

"""C06 — the compiler never crashes or hangs: the decidable parts (DESIGN §3 C06)."""
import re
from core import Rule, Run
import synq
from synq import canon, walk
import facts as FA
from facts import short, strip_generics, show_chain, walk_chain, chain_calls
import c23

PROPERTY = "C06"
TITLE = "The compiler never crashes or hangs, whatever it is given"
NEEDS = ("syn", "facts")
TECHNIQUE = "static analysis: parser progress abstract interpretation (shared with C23), call-graph reachability of todo!/unimplemented! from main with a per-site triage table, belief/use contradiction on polymorphic globals, abstract evaluation of the diagnostic renderer (end position; snippet arithmetic and slicing over every range shape and column)"
EXPLANATION = (
    "Three decidable fragments of 'never panics, never hangs': (a) the parser cannot loop without consuming input and has no "
    "left recursion (the abstract interpretation of C23 R23.a/b, re-run here); (b) resolved call-graph reachability from "
    "capy::main to every call whose span expands from todo!()/unimplemented!(): every reachable site must be in the triage table "
    "(confirmed crash = known finding with witness, or guarded/infeasible with a one-line argument, two of which are themselves "
    "checked statically); a new reachable site is a violation; (c) Engler contradiction: inference ADMITS a polymorphic "
    "(generic) function named as a plain value (it types the expression NaivePolymorphicFunction without a diagnostic) while "
    "const-classification, safety walk and code generation ASSERT that a named global is never polymorphic — every such "
    "assert on a location built from a name expression is reported.")
NOT_DECIDED = [
    "panics through unwrap/expect/indexing/assert!/unreachable! that are guarded by earlier diagnostics (148 indexing and ~120 unwrap sites: each guard is a value-level argument)",
    "recursion depth / stack exhaustion on deeply nested input; termination of the inference fixpoint",
    "Cranelift verifier errors",
    "byte slicing and `range.end() - 1` in Diagnostic::display on empty ranges",
    "incidental crashes found while triaging and not covered by a rule: generic `main` (program.rs:30 'no entry found for key')",
]
ASSUMPTIONS = ["the resolved call graph over-approximates dynamic calls (virtual calls -> every local impl; closures -> their creator)"]

TRIAGE = {
    # (owner suffix, macro) -> (status, reason)
    ("hir::body::WorldBodies::find_comptimes", "todo"): ("finding", ""),
    ("hir_ty::InferenceCtx::finish", "todo"): ("finding", ""),
    ("<codegen::builtin::BuiltinGlobal as core::convert::From<hir_ty::BuiltinKind>>::from", "unimplemented"):
        ("checked", "BuiltinKind::from_str never produces a sub-kind without its own arm (verified below against the from_str table)"),
    ("diagnostics::format_node", "unimplemented"): ("checked", "only called for node kinds passed to mark_old_unexpected, all of which have arms (verified below)"),
    ("codegen::compiler::functions::FunctionCompiler::store_default_in_memory", "todo"):
        ("guarded", "function types have no default value: Ty::has_default_value rejects them and MissingDefaultValue stops the build (witness notes/witness/c06_guard_default.capy)"),
    ("codegen::compiler::functions::FunctionCompiler::compile_array_compare", "unimplemented"):
        ("guarded", "only == and != are accepted on arrays by BinaryOp::can_perform (witness notes/witness/c06_guard_arraycmp.capy reports BinaryOpMismatch)"),
    ("codegen::compiler::program::compile_program", "todo"): ("guarded", "same shape as the entry-point check in InferenceCtx::finish, which runs first and is reported there"),
    ("codegen::compiler::get_func_id", "todo"): ("guarded", "a function-typed global whose body is neither a lambda nor a name is rejected as GlobalNotConst / branch mismatch before codegen (witnesses b3/b4)"),
    ("codegen::convert::abi::x86_64::reg_component", "todo"): ("guarded", "SseUp runs longer than one eightbyte arise only for vector types, which the language does not have"),
    ("codegen::convert::abi::Abi::fn_to_target", "todo"): ("guarded", "wildcard arm after all four variants (allow(unreachable_patterns))"),
    ("<codegen::convert::abi::Abi as core::convert::From<cranelift_codegen::isa::TargetFrontendConfig>>::from", "todo"):
        ("guarded", "non-host calling conventions only; the property quantifies over the host target (x86-64 System V)"),
    ("hir_ty::globals::GlobalInferenceCtx::infer_expr", "todo"): ("guarded", "generic callee whose body is not a lambda: such an alias hits the polymorphic-global asserts first (reported under R06.c)"),
    ("hir_ty::globals::GlobalInferenceCtx::naive_global_to_ty", "todo"): ("guarded", "polymorphic file member named as a value: reported under R06.c"),
}


def r06a(ctx, run):
    sub = Run(run.prop, run.rule)
    c23.r23a(ctx, sub)
    c23.r23b(ctx, sub)
    c23.r23f(ctx, sub)
    c23.r23g(ctx, sub)
    run.instances.extend(sub.instances)
    for f in sub.findings:
        f = dict(f)
        f["key"] = f["key"].replace("C23/R23.a", "C06/R06.a").replace("C23/R23.b", "C06/R06.a").replace("C23/R23.f", "C06/R06.a").replace("C23/R23.g", "C06/R06.a")
        f["property"], f["rule"] = "C06", "R06.a"
        run.findings.append(f)


def r06b(ctx, run):
    F = ctx.facts
    reach = F.reachable(["capy::main"])
    if len(reach) < 300:
        raise LookupError("functions reachable from capy::main: %d" % len(reach))
    sites = {}
    for fn in F.fns:
        for b in fn.blocks:
            t = b["t"]
            if t["k"] != "call":
                continue
            exp = t.get("exp") or []
            mac = [e for e in exp if e in ("todo", "unimplemented")]
            if not mac:
                continue
            owner = strip_generics(fn.parent or fn.path)
            key = (owner, mac[0], t.get("file", fn.file), t["ln"])
            sites.setdefault(key, fn)
    if len(sites) < 12:
        raise LookupError("todo!/unimplemented! sites found: %d" % len(sites))
    per_owner = {}
    for (owner, mac, file, ln), fn in sorted(sites.items()):
        i = per_owner.get((owner, mac), 0)
        per_owner[(owner, mac)] = i + 1
        reachable = fn.path in reach or (fn.parent in reach if fn.parent else False)
        what = "%s!() in %s" % (mac, owner)
        site = "%s:%d" % (file, ln)
        if not reachable:
            run.exempt(site, what, "not reachable from capy::main in the resolved call graph")
            continue
        tri = TRIAGE.get((owner, mac))
        path = F.path_to(reach, fn.parent if (fn.parent and fn.parent in reach) else fn.path)
        via = " <- ".join(short(strip_generics(p)) for p in reversed(path[-5:]))
        if tri is None:
            run.finding(owner, "%s#%d" % (mac, i), file, ln, what + " is reachable from main (%s) and is not in the triage table: the compiler can panic here" % via)
        elif tri[0] == "finding":
            run.finding(owner, "%s#%d" % (mac, i), file, ln, what + " is reachable from main (%s): compiling a program that gets here aborts the compiler with a panic" % via)
        else:
            run.exempt(site, what + " (reachable via %s)" % via, tri[1])
    # the two statically checked exemptions
    import c18
    fn_, tbl = c18.from_str_table(ctx)
    produced = set()
    for s, (body, ln) in tbl.items():
        m = re.search(r"BuiltinKind::(\w+)\{sub_kind: BuiltinSubKind::(\w+)\}", body)
        if m:
            produced.add((m.group(1), m.group(2)))
    conv = [f for f in ctx.syn.fns_in("codegen/src/builtin.rs") if f.name == "from" and f.impl_ty == "BuiltinGlobal"][0]
    handled = set()
    for h, p, g, b, arm in synq.match_table(synq.matches_on(conv.body)[0]):
        m = re.search(r"BuiltinKind::(\w+)\{sub_kind: hir_ty::BuiltinSubKind::(\w+)\}", canon(p))
        if m and "unimplemented" not in canon(b):
            handled.add((m.group(1), m.group(2)))
    run.check(produced <= handled, conv.site(), "every (kind, sub-kind) that from_str can produce has a real arm in BuiltinGlobal::from (%d pairs)" % len(produced), "BuiltinGlobal::from", "coverage",
              conv.file, conv.ln, "from_str can produce %s, which BuiltinGlobal::from answers with unimplemented!()" % sorted(produced - handled))
    fmt = ctx.syn.fn("format_node", "diagnostics/src/lib.rs")
    handled_nodes = {synq.last_seg(h) for h, p, g, b, arm in synq.match_table(synq.matches_on(fmt.body)[0]) if "unimplemented" not in canon(b)}
    passed = set()
    for fn in F.fns:
        for c in fn.calls():
            if short(c.callee) == "mark_old_unexpected":
                ch = fn.chain_operand(c.args[1], depth=4)
                if ch.get("kind") in ("enum", "agg"):
                    passed.add(ch["path"].split("::")[-1])
                else:
                    passed.add("?" + show_chain(ch, 2))
    run.check(passed and passed <= handled_nodes, fmt.site(), "format_node handles every node kind passed to mark_old_unexpected: %s" % sorted(passed), "diagnostics::format_node", "coverage",
              fmt.file, fmt.ln, "mark_old_unexpected is called with %s but format_node only handles %s" % (sorted(passed), sorted(handled_nodes)))


def r06c(ctx, run):
    """belief (asserts) vs admission (NaivePolymorphicFunction typed value)"""
    inf = ctx.syn.fn("GlobalInferenceCtx::infer_expr", "hir_ty/src/globals.rs")
    admits = []
    for m in synq.matches_on(inf.body):
        for h, p, g, b, arm in synq.match_table(m):
            if h.endswith("Expr::LocalGlobal") or h.endswith("Expr::Member"):
                for x in walk(b):
                    if x.get("k") == "match":
                        for h2, p2, g2, b2, a2 in synq.match_table(x):
                            if "NaiveLookupErr::IsPolymorphic" in canon(p2) and "Ty::NaivePolymorphicFunction" in canon(b2) and "diagnostics.push" not in canon(b2):
                                admits.append((synq.last_seg(h), a2["ln"]))
    if not admits:
        run.ok(inf.site(), "inference does not silently admit polymorphic functions as plain values")
        return
    for kind, ln in admits:
        run.ok(inf.site(ln), "belief A (inference): a polymorphic function named by %s is an ordinary expression of type NaivePolymorphicFunction (no diagnostic)" % kind)
    asserting = []
    for file in ("hir_ty/src/globals.rs", "codegen/src/compiler/functions.rs", "codegen/src/compiler/mod.rs"):
        for f in ctx.syn.fns_in(file):
            if f.body is None:
                continue
            for m in synq.matches_on(f.body):
                for h, p, g, b, arm in synq.match_table(m):
                    if not (h.endswith("Expr::LocalGlobal") or h.endswith("Expr::Member")):
                        continue
                    for x in walk(b):
                        if x.get("k") == "macro" and x["name"] == "assert" and "has_polymorphic_body" in x["tokens"] and x["tokens"].startswith("!"):
                            asserting.append("%s:%d (%s)" % (f.file.split("/")[-1], x["ln"], f.name))
    if len(asserting) < 5:
        raise LookupError("assert!(!has_polymorphic_body) sites in name-expression arms: %d" % len(asserting))
    for a in asserting:
        run.instances.append({"rule": run.rule.id, "site": a, "what": "belief B: asserts the named global is not polymorphic", "verdict": "finding"})
    kind, ln = admits[0]
    run.finding("GlobalInferenceCtx::infer_expr", "polymorphic-fn-admitted-as-value", inf.file, ln,
                "inference admits a generic function named as a plain value (`h :: generic_fn;`, `p := file.generic_fn;`: typed NaivePolymorphicFunction, no diagnostic) while %d sites "
                "assert that a named global is never polymorphic (%s): such programs panic the compiler in get_const / codegen instead of getting an error"
                % (len(asserting), ", ".join(asserting[:6]) + (" ..." if len(asserting) > 6 else "")))


def extra_evidence(ctx, runs):
    return c23.extra_evidence(ctx, runs)


def r06d(ctx, run):
    """belief/use: every place that asks const_data for the value of an expression get_const called Const and then PANICS when there is
    none (unwrap / expect / unwrap_or_else(panic) / a `None => unreachable!()` arm) states the belief 'const_data can evaluate everything
    get_const accepts here'.  The belief is compared with the two functions: kinds get_const classifies Const (abstract evaluation, C15
    R15.b) minus kinds const_data has a value-producing arm for."""
    import c15
    G = c15.G
    fn, m, rows = c15.classifier_rows(ctx)
    const_kinds = {k for k, cfg, t, res, p in rows if res == "Const" and not t}
    cd = ctx.syn.fn("GlobalInferenceCtx::const_data", G)
    ms = [x for x in synq.matches_on(cd.body) if canon(x["e"]).startswith("&self.world_bodies[")]
    if len(ms) != 1:
        raise LookupError("match in const_data")
    arms = {}
    for h, p, g, b, arm in synq.match_table(ms[0]):
        if h:
            arms[synq.last_seg(h)] = canon(b)
    evaluable = {k for k, b in arms.items() if "Ok(Some(" in b or "self.const_data(" in b}
    # kinds that denote types / functions / files are never asked for a value here (their positions are checked through const_ty)
    TYPE_LIKE = {"Missing", "Lambda", "Import", "PrimitiveTy", "StructDecl", "Distinct", "EnumDecl", "ArrayDecl", "OptionalDecl", "ErrorUnionDecl", "Nil"}
    NEVER_INT = {"StringLiteral", "FloatLiteral", "BoolLiteral", "CharLiteral", "ArrayLiteral"}
    n = 0
    for f in ctx.syn.fns_in(G):
        if f.body is None or f.name == "const_data":
            continue
        for c in synq.mcalls(f.body, "const_data"):
            n += 1
            # how is the Option consumed?  walk up the method chain / enclosing match
            chain_txt = ""
            for x in walk(f.body):
                if x.get("k") == "mcall" and any(y is c for y in walk(x["r"])) and x["ln"] >= c["ln"] and x["ln"] <= c["ln"] + 12:
                    chain_txt += "." + x["m"] + "(" + canon(x["a"][0])[:40] + ")" if x["a"] else "." + x["m"] + "()"
            enclosing = [x for x in walk(f.body) if x.get("k") == "match" and any(y is c for y in walk(x["e"]))]
            panics_on_none = False
            how = ""
            if ".unwrap_or_else(" in chain_txt and "panic!" in chain_txt:
                panics_on_none, how = True, "unwrap_or_else(panic!)"
            elif chain_txt.count(".unwrap()") + chain_txt.count(".expect(") >= 2:
                panics_on_none, how = True, "unwrapped twice"
            for mm in enclosing:
                for a in mm["arms"]:
                    pc = canon(a["p"])
                    bb = synq.strip_block(a["b"])
                    if pc in ("None", "_") and bb.get("k") == "macro" and bb["name"].rsplit("::", 1)[-1] in ("unreachable", "panic", "todo"):
                        panics_on_none, how = True, "`%s => %s!()`" % (pc, bb["name"])
            target = canon(c["a"][1]) if len(c["a"]) > 1 else "?"
            integer_position = any(("ComptimeResult::Integer" in canon(a["p"])) for mm in enclosing for a in mm["arms"])
            want = (const_kinds - TYPE_LIKE - NEVER_INT) if integer_position else (const_kinds - TYPE_LIKE)
            missing = sorted(want - evaluable)
            site = f.site(c["ln"])
            if not panics_on_none:
                run.ok(site, "%s: const_data(%s) without a value is handled without panicking" % (f.qual, target))
            elif not missing:
                run.ok(site, "%s: const_data(%s) panics on None (%s) but every kind get_const accepts there has a value-producing arm" % (f.qual, target, how))
            else:
                run.finding(f.qual, "const-without-value:%s" % target, f.file, c["ln"],
                            "%s asks const_data for the value of `%s` and panics when there is none (%s), but get_const accepts the kinds %s as constant while const_data "
                            "has no arm that yields a value for them: the compiler panics on such a constant instead of reporting it" % (f.qual, target, how, missing))
    if n < 3:
        raise LookupError("const_data call sites: %d" % n)


def r06e(ctx, run):
    """the diagnostic renderer is handed an inclusive end position; for an EMPTY range (missing-argument and similar diagnostics) `end - 1`
    lies before the start - on the previous line when the range sits at column 0 - and the snippet code slices a line beyond its length.
    Diagnostic::display is evaluated abstractly for an empty and a non-empty range: the position given to line_col for the end must not
    precede the start."""
    from symint import SymInterp, Lin, sym, to_lin
    from absint import Obj, Term, Variant, Panic, CannotEstablish
    disp = ctx.syn.fn("Diagnostic::display", "diagnostics/src/lib.rs")
    S = sym("start")
    for desc, length in (("an empty range", 0), ("a range of 3 bytes", 3)):
        asked = []

        class DI(SymInterp):
            def default_method(self, recv, m, args, e):
                if isinstance(recv, Obj) and recv.name == "range":
                    if m == "start":
                        return S
                    if m == "end":
                        return to_lin(S).add(to_lin(length))
                    if m == "is_empty":
                        return length == 0
                    if m == "len":
                        return length
                if m == "line_col":
                    asked.append(args[0])
                    return (Variant("LineNr", {"0": Term("l", len(asked))}), Variant("ColNr", {"0": Term("c", len(asked))}))
                if m == "range" and isinstance(recv, Obj) and recv.name in ("self", "help"):
                    return Obj("range")
                if m in ("severity", "arrow", "message", "help"):
                    if m == "message":
                        return (False, "msg")
                    if m == "help":
                        return None
                    return Term(m)
                return super().default_method(recv, m, args, e)
        def resolver(path):
            last = path.rsplit("::", 1)[-1]
            c = [f for f in ctx.syn.fns_in("diagnostics/src/lib.rs") if f.body is not None and f.qual.rsplit("::", 1)[-1] == last and not f.in_test]
            return c[0] if len(c) == 1 else None
        it = DI(resolver=resolver, funcs={"TextSize::from": lambda i, a: a[0], "TextSize::new": lambda i, a: a[0], "input_snippet": lambda i, a: None},
                macros={"format": lambda i, e, env: "fmt", "vec": lambda i, e, env: []})
        names = disp.param_names()
        env = {"self": Obj("self")}
        for n in names[1:]:
            env[n] = Term(n)
        env["with_colors"] = False
        try:
            it.run_fn(disp, env)
        except (Panic, CannotEstablish) as c:
            if len(asked) < 2:
                run.finding("Diagnostic::display", "end-position:" + desc, disp.file, disp.ln, "cannot establish the end position display computes for %s: %s" % (desc, getattr(c, "what", c)))
                continue
        start_pos, end_pos = asked[0], asked[1]
        d = to_lin(end_pos).add(to_lin(start_pos), -1)
        good = isinstance(d, int) and d >= 0
        run.check(good, disp.site(), "%s: inclusive end position = start %+d" % (desc, d if isinstance(d, int) else 0), "Diagnostic::display", "end-position:" + desc, disp.file, disp.ln,
                  "for %s display asks line_col for the end position %r, which is before the start %r: when the range sits at column 0 the end falls on the previous "
                  "line's newline and the snippet code slices that line beyond its length (panic instead of a diagnostic)" % (desc, end_pos, start_pos))


def r06g(ctx, run):
    """a data object is defined once: every create_global_data call names its object freshly (a unique-id generator is part of the name) or is
    memoised (created only after a lookup of the same name/key missed: a cache map of the compiler, or the module's own name table).  An expression can
    be compiled more than once (a defer body is emitted on every exit that crosses it), and defining a name twice makes the module panic."""
    F = ctx.facts
    n = 0
    for fn in F.fns:
        if fn.crate != "codegen":
            continue
        for c in fn.calls():
            if short(c.callee) != "create_global_data" or "FunctionCompiler" not in c.callee:
                continue
            n += 1
            owner = short(strip_generics(fn.path))
            name = fn.chain_operand(c.args[1], depth=14)
            fresh = any(nd.get("kind") == "call" and short(nd["callee"]) == "generate_unique_id" for nd in walk_chain(name))
            if not fresh:
                # format!(..) hides its arguments from the chain: look for the generator in the same function instead, feeding a format
                fresh = FA.chain_has_call(name, "format") and any(short(x.callee) == "generate_unique_id" for x in fn.calls())
            memo = None

            def calls_of(ch):
                return [(short(nd["callee"]), nd.get("bb"), nd.get("ln")) for nd in walk_chain(ch) if nd.get("kind") == "call"]

            def field_of(ch):
                for nd in walk_chain(ch):
                    for pr in nd.get("proj", []) or []:
                        if isinstance(pr, str) and pr.startswith("."):
                            return pr
                return None
            name_calls = set(calls_of(name))
            for l in fn.calls():
                if not fn.dominates(l.bb, c.bb) or l.bb == c.bb:
                    continue
                # (a) the module's own name table, asked for the very name the object is created under
                if short(l.callee) == "get_name" and len(l.args) >= 2 and name_calls & set(calls_of(fn.chain_operand(l.args[1], depth=14))):
                    memo = "module.get_name at line %d" % l.ln
                # (b) a cache map of the compiler that the created id is inserted into
                if short(l.callee) in ("get", "contains_key") and l.args:
                    fld = field_of(fn.chain_operand(l.args[0], depth=8))
                    if fld and fld != ".comptime_results":
                        for ins in fn.calls():
                            if short(ins.callee) == "insert" and ins.args and field_of(fn.chain_operand(ins.args[0], depth=8)) == fld and any(
                                    FA.chain_has_call(fn.chain_operand(a_, depth=10), "create_global_data") for a_ in ins.args[1:]):
                                memo = "cache %s looked up at line %d, filled at line %d" % (fld, l.ln, ins.ln)
            if fresh:
                run.ok(c.site(), "%s: the data object's name contains a fresh unique id" % owner)
            elif memo is not None:
                run.ok(c.site(), "%s: created only after a lookup missed (%s)" % (owner, memo))
            else:
                run.finding(strip_generics(fn.path), "data-defined-per-compilation:" + owner, c.file, c.ln,
                            "%s defines a data object under a name computed from the expression's location, without a fresh id and without looking the name up first: when "
                            "the expression is compiled twice (a defer body is emitted on every exit that crosses it) the module panics with DuplicateDefinition" % owner)
    if n < 4:
        raise LookupError("create_global_data call sites: %d" % n)


def r06h(ctx, run):
    """two variants of one enum with the same discriminant make an exhaustive switch over the enum set the same jump-table entry twice, which
    Cranelift's Switch asserts against: the numbering loop must give pairwise distinct discriminants (shared with C11 R11.d)"""
    import c11
    c11.r11d(ctx, run)


def r06i(ctx, run):
    """what is recorded while the statements of a body are inferred survives the interruptions of that inference: with `expected_tys` gone, the final
    pass combines the breaks of an annotated block without its annotation and panics in replace_weak_tys (shared with C09 R09.k)"""
    import c09
    c09.r09k(ctx, run)


def r06j(ctx, run):
    """accepted but unbuildable: every cast the checker accepts is one cast_into_memory can build (shared with C07 R07.h) - the other way ends in an
    assertion of the code generator, i.e. a compiler crash"""
    import c07
    c07.r07h(ctx, run)


def r06k(ctx, run):
    """== / != on aggregates that the checker accepts are built without reaching an unreachable!() or a filled block (shared with C07 R07.i)"""
    import c07
    c07.r07i(ctx, run)


def r06l(ctx, run):
    """what the ABI layer hands Cranelift must satisfy Cranelift's own assertions: an argument passed in memory is a StructArgument whose size Cranelift
    requires to be a multiple of 8 (fn_ty_to_abi evaluated on argument lists with a 12-byte aggregate that does not fit the registers; shared with C19 R19.e)"""
    import c19
    c19.r19e(ctx, run)


def r06m(ctx, run):
    """weak-type replacement through `p^` keeps the pointer's own mutability: otherwise re-inference meets a type it cannot reconcile and panics on
    `y := 5; p := ^mut y; z : i32 = p^;` (shared with C09 R09.m)"""
    import c09
    c09.r09m(ctx, run)


def r06n(ctx, run):
    """weak-type replacement gives the operands of an operator only a type the operator can be performed on, or reports it: otherwise
    `x : f32 = 7 % 2;` reaches unreachable!() in compile_num_binary (shared with C07 R07.n)"""
    import c07
    c07.r07n(ctx, run)


def r06o(ctx, run):
    """belief vs use between lowering and parser: where HIR lowering answers a missing AST child with `unreachable!()` it states the belief 'the parser
    always creates this child'.  For each such site (parent node type, accessor -> child node type) the parser must complete the child's NodeKind
    unconditionally in the statement list that completes the parent's NodeKind - not inside an `if` / `match` / loop of its own: a truncated input
    (`arr[;`, `arr[` at the end of the file) is a syntax error the parser reports, and lowering runs before diagnostics are printed."""
    B = "hir/src/body.rs"
    AST = "ast/src/lib.rs"
    beliefs = []
    for f in ctx.syn.fns_in(B):
        if f.body is None or f.in_test:
            continue
        ptys = {n_: str(p_.get("ty", "")) for n_, p_ in zip(f.param_names(), f.params)}
        for m in synq.matches_on(f.body):
            e = m["e"]
            if e.get("k") != "mcall" or e["r"].get("k") != "path" or e["r"]["p"] not in ptys or not ptys[e["r"]["p"]].startswith("ast::"):
                continue
            for a in m["arms"]:
                bb = synq.strip_block(a["b"])
                if canon(a["p"]) == "None" and bb.get("k") == "macro" and bb["name"].rsplit("::", 1)[-1] == "unreachable":
                    beliefs.append((f, m["ln"], ptys[e["r"]["p"]].split("::", 1)[1], e["m"]))
    if len(beliefs) < 2:
        raise LookupError("`None => unreachable!()` on an AST child accessor in hir lowering: %d" % len(beliefs))
    for f, ln, parent, accessor in beliefs:
        acc = [g for g in ctx.syn.fns_in(AST) if g.qual == "%s::%s" % (parent, accessor)]
        child = None
        if len(acc) == 1:
            mm = re.match(r"Option<(\w+)>", str(acc[0].node.get("ret") or "").replace(" ", ""))
            child = mm.group(1) if mm else None
        key = "child-always-made:%s.%s" % (parent, accessor)
        if child is None:
            run.finding(f.qual, key, f.file, ln, "cannot find what node %s::%s returns: the belief of %s (a missing child is unreachable) cannot be compared with the parser" % (parent, accessor, f.qual))
            continue
        # the parser statement list that completes the parent kind
        found = False
        for g in ctx.syn.fns_in("parser/src/grammar/expr.rs") + ctx.syn.fns_in("parser/src/grammar/stmt.rs") + ctx.syn.fns_in("parser/src/grammar.rs"):
            if g.body is None or g.in_test:
                continue
            for blk in [x for x in walk(g.body) if x.get("k") == "block"]:
                stmts = blk["s"]
                idx = [i for i, st in enumerate(stmts) if ("NodeKind::%s)" % parent) in canon(st).replace(" ", "") and "complete(" in canon(st)
                       and not any(x.get("k") == "block" and ("NodeKind::%s)" % parent) in canon(x).replace(" ", "") for x in walk(st) if x is not st and x is not blk)]
                if not idx:
                    continue
                found = True
                def unconditional(st):
                    # the completion of the child kind, not below an if / match / loop / closure inside this statement
                    def rec(n, cond):
                        if isinstance(n, list):
                            return any(rec(x, cond) for x in n)
                        if not isinstance(n, dict):
                            return False
                        k = n.get("k")
                        if k == "mcall" and n["m"] == "complete" and any(canon(a_).replace(" ", "") == "NodeKind::" + child for a_ in n["a"]) and not cond:
                            return True
                        c2 = cond or k in ("if", "match", "loop", "while", "for", "closure")
                        return any(rec(v, c2) for kk, v in n.items() if kk not in ("k", "ln") and isinstance(v, (dict, list)))
                    return rec(st, False)
                made = any(unconditional(st) for st in stmts[:idx[0] + 1])
                run.check(made, g.site(stmts[idx[0]]["ln"]), "%s: every %s node has its %s child (lowering's %s believes so)" % (g.qual, parent, child, f.qual), g.qual, key, g.file,
                          stmts[idx[0]]["ln"], "%s completes a %s node without always completing a %s child in it (the child is only made under a condition), but %s answers a missing "
                          "%s with unreachable!(): a truncated input such as `arr[;` panics the compiler in lowering instead of reporting the syntax error" % (g.qual, parent, child, f.qual, child))
        if not found:
            run.finding(f.qual, key, f.file, ln, "no parser statement list completes NodeKind::%s: the belief of %s cannot be compared with the parser" % (parent, f.qual))


def r06f(ctx, run):
    """input_snippet is total: evaluated from its source for every shape of (file length, first line, span, lines after the span) that its
    arithmetic distinguishes and for every pair of columns a position can have (0 ..= line length: the position of the newline / end of
    file is a position), no unsigned subtraction goes below zero and no line is sliced beyond its length."""
    from symint import SymInterp
    from absint import Obj, Term, Variant, Panic, CannotEstablish
    fn = ctx.syn.fn("input_snippet", "diagnostics/src/lib.rs")
    U = "diagnostics::input_snippet"

    class RI(SymInterp):
        def binop(self, op, l, r, e):
            if isinstance(l, int) and isinstance(r, int) and not isinstance(l, bool) and not isinstance(r, bool):
                if op == "-" and l - r < 0:
                    raise Panic("attempt to subtract with overflow: `%s`" % canon(e))
            return super().binop(op, l, r, e)

        def eval(self, e, env):
            k = e["k"]
            if k == "index" and e["i"].get("k") == "range":
                b = self.eval(e["e"], env)
                if isinstance(b, str):
                    lo = self.eval(e["i"]["lo"], env) if e["i"].get("lo") is not None else 0
                    hi = self.eval(e["i"]["hi"], env) if e["i"].get("hi") is not None else len(b.encode())
                    if e["i"].get("incl"):
                        hi += 1
                    if not (isinstance(lo, int) and isinstance(hi, int)):
                        raise CannotEstablish("slice bounds of `%s`" % canon(e))
                    bb = b.encode()
                    if lo > hi or hi > len(bb):
                        raise Panic("slice out of bounds: `%s`" % canon(e))
                    for x in (lo, hi):
                        if x < len(bb) and (bb[x] & 0xC0) == 0x80:
                            raise Panic("slice not on a char boundary: `%s`" % canon(e))
                    return bb[lo:hi].decode()
            if k == "cast":
                return self.eval(e["e"], env)
            if k == "ref":
                return self.eval(e["e"], env)
            return super().eval(e, env)

        def default_method(self, recv, m, args, e):
            if isinstance(recv, str):
                if m == "lines":
                    out = recv.split("\n")
                    if out and out[-1] == "":
                        out.pop()
                    return [x[:-1] if x.endswith("\r") else x for x in out]
                if m == "repeat":
                    if not isinstance(args[0], int):
                        raise CannotEstablish("repeat count")
                    return recv * args[0]
                if m == "replace":
                    return recv.replace(args[0], args[1])
                if m == "chars":
                    return list(recv)
                if m == "len":
                    return len(recv.encode())
                if m in ("to_string", "to_owned", "as_str", "into"):
                    return recv
                if m == "get":
                    return None
            if isinstance(recv, list):
                if m in ("iter", "into_iter", "collect", "copied", "cloned"):
                    return recv
                if m == "enumerate":
                    return [(i, x) for i, x in enumerate(recv)]
                if m == "take":
                    return recv[:args[0]]
                if m == "skip":
                    return recv[args[0]:]
                if m == "count":
                    return len(recv)
                if m == "filter":
                    return [x for x in recv if self.call_closure(args[0], [x])]
                if m == "push":
                    recv.append(args[0])
                    return None
                if m == "len":
                    return len(recv)
            if m in ("max", "min") and isinstance(recv, int) and args and isinstance(args[0], int):
                return max(recv, args[0]) if m == "max" else min(recv, args[0])
            if m == "saturating_sub" and isinstance(recv, int):
                return max(0, recv - args[0])
            if m == "checked_mul" and isinstance(recv, int):
                v = recv * args[0]
                return None if v > 0xFFFFFFFF else v
            return super().default_method(recv, m, args, e)

    def resolver(path):
        last = path.rsplit("::", 1)[-1]
        c = [f for f in ctx.syn.fns_in("diagnostics/src/lib.rs") if f.body is not None and f.qual.rsplit("::", 1)[-1] == last and not f.in_test]
        return c[0] if len(c) == 1 else None

    def fmt(i, e, env):
        for a in e.get("a", [])[1:]:
            i.eval(a, env)
        return "<fmt>"

    def render(text, sl, sc, el, ec, arrow):
        it = RI(resolver=resolver, macros={"format": fmt}, funcs={"String::new": lambda i, a: "", "pathdiff::diff_paths": lambda i, a: None,
                                                                  "std::env::current_dir": lambda i, a: Term("cwd")})
        it.methods["unwrap"] = lambda i, r, a: r
        it.methods["unwrap_or_else"] = lambda i, r, a: "file.capy" if r is None else r
        it.methods["map"] = lambda i, r, a: None if r is None else NotImplemented
        env = {"filename": "file.capy", "input": text, "start_line": Variant("LineNr", {"0": sl}), "start_col": Variant("ColNr", {"0": sc}),
               "end_line": Variant("LineNr", {"0": el}), "end_col": Variant("ColNr", {"0": ec}), "lines": [], "severity": Variant("Severity::Error"),
               "with_colors": False, "missing_arrow": arrow}
        it.run_fn(fn, env)

    bad = {}
    n_runs = 0

    def attempt(desc, text, sl, sc, el, ec, arrow=False):
        nonlocal n_runs
        n_runs += 1
        try:
            render(text, sl, sc, el, ec, arrow)
        except Panic as p:
            bad.setdefault(("panic", p.what), desc)
        except CannotEstablish as c:
            bad.setdefault(("unknown", str(getattr(c, "what", c))), desc)

    # (1) the line arithmetic: every regime of first line (saturating_sub(2)), span (omission of the middle), lines after the span (clamping by
    #     the file's length) and number of digits of the last line number
    for start in (0, 1, 2, 3, 6, 84, 95, 96, 97, 98, 99):
        for span in range(0, 19):
            for trailing in (0, 1, 2, 3, 4):
                n = start + span + 1 + trailing
                text = "abc\n" * n
                attempt("a %d-line file, range from line %d to line %d" % (n, start + 1, start + span + 1), text, start, 0, start + span, 0)
    # (2) the columns: a range starts on a character boundary (the newline's position included) and its inclusive end is the last byte of a
    #     character, the newline itself, or - for an empty range - the start; on one line, two lines and three lines; with and without the arrow
    for line in ("abc", "a\u00e9b"):
        nbytes = len(line.encode())
        bounds = [i for i in range(nbytes + 1) if i == nbytes or (line.encode()[i] & 0xC0) != 0x80]
        for nl, (sl, el) in ((1, (0, 0)), (3, (1, 1)), (2, (0, 1)), (3, (0, 2))):
            text = (line + "\n") * nl
            for sc in bounds:
                # non-empty ranges begin and end with a token character (syntax nodes carry no leading/trailing trivia: assumption); an empty range
                # may sit on the newline / end of file, or before an ASCII character (`)` or white space follow the two producers of empty ranges)
                ends = {b - 1 for b in bounds if b >= 1 and (sl != el or b > sc)} if sc < nbytes else set()
                if sl == el and (sc == nbytes or line.encode()[sc] < 0x80):
                    ends.add(sc)
                for ec in sorted(ends):
                    for arrow in (False, True):
                        attempt("lines `%s`, range from %d:%d to %d:%d (byte columns; column %d is the newline)" % (line, sl + 1, sc, el + 1, ec, nbytes), text, sl, sc, el, ec, arrow)
    # (3) a file whose last line has no newline, empty lines, a tab
    for text, sl, sc, el, ec in (("abc", 0, 0, 0, 2), ("abc", 0, 3, 0, 3), ("\n\n\n", 1, 0, 1, 0), ("a\n\n", 1, 0, 1, 0), ("\tab\n", 0, 1, 0, 2), ("", 0, 0, 0, 0)):
        attempt("text %r, range %d:%d-%d:%d" % (text, sl + 1, sc, el + 1, ec), text, sl, sc, el, ec)
        attempt("text %r, range %d:%d-%d:%d, arrow" % (text, sl + 1, sc, el + 1, ec), text, sl, sc, el, ec, True)
    if n_runs < 1000:
        raise LookupError("renderer evaluations: %d" % n_runs)
    for (kind, what), desc in sorted(bad.items()):
        if kind == "panic":
            run.finding(U, "render-panic:" + what.split(": `")[0] + ":" + (what.split(": `")[1].rstrip("`") if ": `" in what else ""), fn.file, fn.ln,
                        "rendering a diagnostic panics (%s) for %s: the compiler dies while printing its own message" % (what, desc))
        else:
            run.finding(U, "render-unknown:" + what[:80], fn.file, fn.ln, "cannot establish that rendering succeeds for %s: %s" % (desc, what))
    if not bad:
        run.ok(fn.site(), "input_snippet evaluated for %d (file, range) shapes: no subtraction below zero, no slice beyond a line" % n_runs)


def rules(ctx):
    return [
        Rule("R06.a", "the parser cannot loop without consuming input, has no left recursion, never bumps a trivia token, and none of its explicit assertions can fail (C23 R23.a/b/f/g)", 40, r06a),
        Rule("R06.b", "every todo!()/unimplemented!() reachable from main is triaged; new reachable sites are violations", 3, r06b),
        Rule("R06.d", "const evaluation sites that panic without a value only see kinds const_data can evaluate (classifier vs evaluator, belief/use)", 3, r06d),
        Rule("R06.e", "the renderer's inclusive end position never precedes the start (empty ranges)", 2, r06e),
        Rule("R06.i", "tables filled while a statement is inferred survive the interruptions of the body's inference (shared with C09 R09.k)", 1, r06i),
        Rule("R06.j", "every cast the checker accepts is one the code generator can build (shared with C07 R07.h)", 100, r06j),
        Rule("R06.k", "every == / != the checker accepts on aggregates is built (shared with C07 R07.i)", 60, r06k),
        Rule("R06.l", "an argument passed in memory gets a whole number of eightbytes (Cranelift asserts it); fn_ty_to_abi evaluated (shared with C19 R19.e)", 10, r06l),
        Rule("R06.m", "weak-type replacement through a dereference keeps the pointer's mutability (re-inference panics otherwise; shared with C09 R09.m)", 6, r06m),
        Rule("R06.n", "weak-type replacement never gives an operator operands of a type it cannot be performed on without reporting it (shared with C07 R07.n)", 20, r06n),
        Rule("R06.o", "where lowering answers a missing AST child with unreachable!(), the parser always makes that child (belief vs use across crates)", 2, r06o),
        Rule("R06.h", "variants of one enum get pairwise distinct discriminants (a duplicate panics Cranelift's Switch; shared with C11 R11.d)", 1, r06h),
        Rule("R06.g", "a data object is defined once: fresh name or memoised creation at every create_global_data site", 4, r06g),
        Rule("R06.f", "the snippet renderer is total: no unsigned subtraction below zero and no slice beyond a line, for every range shape and column (newline position included)", 1, r06f),
        Rule("R06.c", "no assert that a named global is non-polymorphic while inference admits polymorphic functions as values", 6, r06c),
    ]

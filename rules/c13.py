"""C13 — distinct types, variants and named structs are nominal (DESIGN §3 C13)."""
from core import Rule
import synq
from synq import canon, walk

PROPERTY = "C13"
TITLE = "Distinct types, variants and named structs are nominal"
NEEDS = ("syn", "facts")
TECHNIQUE = "static analysis: match-table rules over Ty::can_fit_into / is_functionally_equivalent_to / can_cast_to + who-may-call on the lossy equivalence"
EXPLANATION = (
    "Static match-table analysis (engine B) of the three type relations: (a) every same-kind nominal arm of "
    "can_fit_into (Distinct, EnumVariant, ConcreteStruct; EnumVariant->Enum) binds only uids and returns their "
    "equality, and precedes any arm that could accept the pair; (b) can_fit_into falls through to "
    "is_functionally_equivalent_to(expected, false) with the literal false, whose (Distinct, other)/(EnumVariant, other) "
    "arms are guarded by self_can_lose_distinction; (e) on the acceptance path (flag false) a same-kind nominal pair "
    "nested under a pointer/slice/array must not be compared ignoring its uid; (c) can_cast_to has both directions of "
    "Distinct/underlying; (d) engine A who-may-call: is_functionally_equivalent_to(_, true) is only called from the "
    "enumerated cast/codegen sites, never from code deciding acceptance.")
NOT_DECIDED = [
    "nominality through Ty::max's has_semantics_of route for every pair of operand types (type-universe evaluation)",
    "that explicit casts preserve the value (code generation of no-op casts: C08/C02 rules)",
]
ASSUMPTIONS = ["`uid`s are unique per declaration (uid_gen crate)"]

NOMINAL = ("Distinct", "EnumVariant", "ConcreteStruct")


def tuple_arms(fn, scrut="(self, expected)"):
    ms = [m for m in synq.matches_on(fn.body) if canon(m["e"]) == scrut]
    if len(ms) != 1:
        raise LookupError("match %s in %s (%d)" % (scrut, fn.qual, len(ms)))
    rows = []
    for arm in ms[0]["arms"]:
        for alt in synq.or_alternatives(arm["p"]):
            if alt["k"] != "p_tuple" or len(alt["e"]) != 2:
                continue
            for a in synq.or_alternatives(alt["e"][0]):
                for b in synq.or_alternatives(alt["e"][1]):
                    rows.append((a, b, arm))
    return ms[0], rows


def head(p):
    return synq.last_seg(synq.pat_head(p))


def bindings(p):
    """names bound by pattern p -> field path"""
    out = {}
    if p["k"] == "p_struct":
        for name, fp in p["f"]:
            if fp["k"] == "p_ident":
                out[fp["n"]] = name
            else:
                for k, v in bindings(fp).items():
                    out[k] = name + "." + v
    elif p["k"] == "p_ident" and not p["n"][:1].isupper():
        out[p["n"]] = "<whole>"
    elif p["k"] == "p_ts":
        for i, e in enumerate(p["e"]):
            for k, v in bindings(e).items():
                out[k] = "%d.%s" % (i, v)
    return out


def _nominal_interp(ctx):
    """abstract evaluation of the acceptance relation on symbolic nominal types (distinct atoms are different values)"""
    from symint import SymInterp
    from absint import Term, Variant, Obj, Panic, CannotEstablish
    fit = ctx.syn.fn("Ty::can_fit_into", "hir/src/common/ty.rs")
    eqv = ctx.syn.fn("Ty::is_functionally_equivalent_to", "hir/src/common/ty.rs")

    class NI(SymInterp):
        def default_method(self, recv, m, args, e):
            # a list of (key, value) pairs collected into a map
            if isinstance(recv, list) and recv and all(isinstance(x, tuple) and len(x) == 2 for x in recv):
                if m == "get" and len(args) == 1:
                    return next((v for k_, v in recv if k_ == args[0]), None)
                if m == "contains_key" and len(args) == 1:
                    return any(k_ == args[0] for k_, v in recv)
            return super().default_method(recv, m, args, e)

        def binop(self, op, l, r, e):
            if op in ("==", "!="):
                same = None
                if isinstance(l, (Term, Variant)) and isinstance(r, (Term, Variant)):
                    same = l == r
                elif isinstance(l, list) and isinstance(r, list):
                    same = l == r
                if same is not None:
                    return same == (op == "==")
            return super().binop(op, l, r, e)

    _free = {}

    def free_fn(path):
        # a relation split into a free helper function of ty.rs is run from its own source
        last = path.rsplit("::", 1)[-1]
        if last not in _free:
            c = [f for f in ctx.syn.fns_in("hir/src/common/ty.rs") if f.body is not None and not f.in_test and f.impl_ty is None and f.qual.rsplit("::", 1)[-1] == last]
            _free[last] = c[0] if len(c) == 1 else None
        return _free[last]

    def run_fit(a, b, depth=0):
        if depth > 6:
            raise CannotEstablish("recursion depth")
        it = NI(resolver=free_fn, methods={"can_fit_into": lambda i, r, args: run_fit(r, args[0], depth + 1),
                         "is_functionally_equivalent_to": lambda i, r, args: run_eqv(r, args[0], args[1], depth + 1),
                         "might_be_weak": lambda i, r, args: False, "is_weak_replaceable_by": lambda i, r, args: False,
                         "is_zero_sized": lambda i, r, args: False})
        n = fit.param_names()
        return it.run_fn(fit, {"self": a, n[1]: b})

    def run_eqv(a, b, flag, depth=0):
        if depth > 6:
            raise CannotEstablish("recursion depth")
        it = NI(resolver=free_fn, methods={"is_functionally_equivalent_to": lambda i, r, args: run_eqv(r, args[0], args[1], depth + 1),
                         "can_fit_into": lambda i, r, args: run_fit(r, args[0], depth + 1),
                         "zip_eq": lambda i, r, args: list(zip(r, args[0])) if isinstance(r, list) else NotImplemented})
        n = eqv.param_names()
        return it.run_fn(eqv, {"self": a, n[1]: b, n[2]: flag})
    return fit, run_fit


def r13a(ctx, run):
    from absint import Term, Variant, Obj, Panic, CannotEstablish
    fn, run_fit = _nominal_interp(ctx)
    m, rows = tuple_arms(fn)
    F = "Ty::can_fit_into"
    I32, I64 = Variant("Ty::IInt", {"0": 32}), Variant("Ty::IInt", {"0": 64})
    name = Term("name")

    class MemberObj(Obj):
        def __eq__(self, o):
            return isinstance(o, Obj) and self.fields == o.fields

        def __hash__(self):
            return 1

    def mk(kind, uid, under):
        if kind == "Distinct":
            return Variant("Ty::Distinct", {"uid": uid, "sub_ty": under})
        if kind == "EnumVariant":
            return Variant("Ty::EnumVariant", {"enum_uid": 50, "variant_name": name, "uid": uid, "sub_ty": under, "discriminant": 0})
        return Variant("Ty::ConcreteStruct", {"uid": uid, "members": [MemberObj("MemberTy", name=Term("a"), ty=under)]})

    def expect(desc, key, a, b, want, why, ln=None):
        try:
            got = run_fit(a, b)
        except (Panic, CannotEstablish) as c:
            run.finding(F, key, fn.file, fn.ln, "cannot establish whether %s is accepted: %s" % (desc, getattr(c, "what", c)))
            return
        if got is want:
            run.ok(fn.site(), "%s: %s" % (desc, "accepted" if got else "rejected"))
        else:
            run.finding(F, key, fn.file, fn.ln, "%s is %s by can_fit_into: %s" % (desc, "accepted" if got else "rejected", why))
    for kind in NOMINAL:
        a = mk(kind, 1, I32)
        expect("a %s where the same %s is expected" % (kind, kind), "nominal:%s:same" % kind, a, mk(kind, 1, I32), True, "a type must be accepted as itself")
        expect("a %s where a different %s with the same underlying type is expected" % (kind, kind), "nominal:%s" % kind, a, mk(kind, 2, I32), False,
               "two nominal types with equal structure are different types (uids differ)")
        expect("an instantiation of a generic %s where another instantiation (same declaration uid, different underlying type) is expected" % kind,
               "nominal:%s:instantiation" % kind, a, mk(kind, 1, I64), False,
               "instantiations of one generic declaration share its uid; with different arguments they are different nominal types")
    # nominal types over nominal types: `Altitude :: distinct Meters` is not `Meters` (nor the other way round), directly or through one constructor
    for kind in ("Distinct", "EnumVariant", "ConcreteStruct"):
        inner = mk(kind, 1, I32)
        for cname, wrap in (("T", lambda t: t), ("?T", lambda t: Variant("Ty::Optional", {"sub_ty": t})),
                            ("str!T", lambda t: Variant("Ty::ErrorUnion", {"error_ty": Variant("Ty::String"), "payload_ty": t}))):
            outer = mk("Distinct", 2, wrap(inner))
            expect("a %s where a distinct of %s of it is expected (`Altitude :: distinct %s`)" % (kind.lower(), cname, cname), "nominal-over-nominal:%s:%s" % (kind, cname), inner, outer, False,
                   "a value of one nominal type is accepted where a DIFFERENT nominal type, declared on top of it, is expected")
        outer = mk("Distinct", 2, inner)
        expect("a distinct of a %s where that %s is expected" % (kind.lower(), kind.lower()), "nominal-over-nominal:%s:down" % kind, outer, inner, False,
               "a value of the outer nominal type is accepted as the type it is declared on top of")
        # ... and behind a pointer / inside a slice: `^Point` is not a `^Pixel` (`Pixel :: distinct Point`) either
        for cname, wrap in (("^T", lambda t: Variant("Ty::Pointer", {"mutable": False, "sub_ty": t})), ("[]T", lambda t: Variant("Ty::Slice", {"sub_ty": t}))):
            expect("%s of a %s where %s of a distinct of it is expected" % (cname, kind.lower(), cname), "nominal-over-nominal:%s:behind %s" % (kind, cname), wrap(inner), wrap(outer), False,
                   "behind a pointer (or in a slice) a value of one nominal type is accepted as a different nominal type declared on top of it")
            expect("%s of a distinct of a %s where %s of that %s is expected" % (cname, kind.lower(), cname, kind.lower()), "nominal-over-nominal:%s:down behind %s" % (kind, cname),
                   wrap(outer), wrap(inner), False, "behind a pointer (or in a slice) a value of the outer nominal type is accepted as the type it is declared on top of")
    # variant -> its own enum only
    v = mk("EnumVariant", 1, I32)
    own = Variant("Ty::Enum", {"uid": 50, "variants": [v, mk("EnumVariant", 2, I64)]})
    other = Variant("Ty::Enum", {"uid": 51, "variants": [v]})
    other_inst = Variant("Ty::Enum", {"uid": 50, "variants": [mk("EnumVariant", 1, I64), mk("EnumVariant", 2, I64)]})
    expect("a variant where its own enum is expected", "variant-to-enum:own", v, own, True, "variant-to-own-enum conversion is the property's stated exception")
    expect("a variant where a different enum is expected", "variant-to-enum", v, other, False, "a variant fits only its OWN enum")
    expect("a variant where another instantiation of its generic enum is expected", "variant-to-enum:instantiation", v, other_inst, False,
           "another instantiation of the enum does not list this variant type")
    # found-side nominal value where its underlying (or a wider plain) type is expected
    for kind in ("Distinct", "EnumVariant"):
        for uname, under, exp in (("i32", I32, I32), ("i32 -> i64", I32, I64), ("u32 -> usize", Variant("Ty::UInt", {"0": 32}), Variant("Ty::UInt", {"0": 255})),
                                  ("bool", Variant("Ty::Bool"), Variant("Ty::Bool")), ("str", Variant("Ty::String"), Variant("Ty::String"))):
            expect("a %s over %s where the plain type is expected" % (kind.lower(), uname), "unwrap-found:%s" % kind, mk(kind, 1, under), exp, False,
                   "the nominal type would be accepted as its underlying type")
    # ... and behind one constructor: a pointer / slice / array of the nominal type is not a pointer / slice / array of its underlying type either, and
    # a sized array of it does not coerce to a slice of the underlying type
    for kind in ("Distinct", "EnumVariant"):
        n_ = mk(kind, 1, I32)
        for cname, wrap_found, wrap_exp in (
                ("^T", lambda t: Variant("Ty::Pointer", {"mutable": False, "sub_ty": t}), lambda t: Variant("Ty::Pointer", {"mutable": False, "sub_ty": t})),
                ("[]T", lambda t: Variant("Ty::Slice", {"sub_ty": t}), lambda t: Variant("Ty::Slice", {"sub_ty": t})),
                ("[3]T", lambda t: Variant("Ty::ConcreteArray", {"size": 3, "sub_ty": t}), lambda t: Variant("Ty::ConcreteArray", {"size": 3, "sub_ty": t})),
                ("[3]T -> []T", lambda t: Variant("Ty::ConcreteArray", {"size": 3, "sub_ty": t}), lambda t: Variant("Ty::Slice", {"sub_ty": t})),
                ("?T", lambda t: Variant("Ty::Optional", {"sub_ty": t}), lambda t: Variant("Ty::Optional", {"sub_ty": t}))):
            expect("%s of a %s over i32 where %s of i32 is expected" % (cname.split(" -> ")[0], kind.lower(), cname.split(" -> ")[-1]), "unwrap-found-nested:%s:%s" % (kind, cname),
                   wrap_found(n_), wrap_exp(I32), False, "behind %s the nominal type would be accepted as its underlying type" % cname)
    # struct with a plain member vs anonymous struct etc. are C12 territory; record the arms that exist
    seen = set()
    for fp, ep, arm in rows:
        fh, eh = head(fp), head(ep)
        if fh in NOMINAL and eh == fh:
            seen.add(fh)
        if fh == "EnumVariant" and eh == "Enum":
            seen.add("EnumVariant->Enum")
    for want in NOMINAL + ("EnumVariant->Enum",):
        if want not in seen:
            run.finding(F, "missing:%s" % want, fn.file, m["ln"], "can_fit_into has no identity arm for %s" % want)
    first = fn.body["s"][0]
    run.check(first["k"] == "expr" and first["e"]["k"] == "if" and canon(first["e"]["c"]) == "(self == expected)", fn.site(first["ln"]),
              "reflexive early return", F, "reflexive", fn.file, first["ln"], "can_fit_into must accept identical types first")


def r13b(ctx, run):
    fn = ctx.syn.fn("Ty::can_fit_into", "hir/src/common/ty.rs")
    m, rows = tuple_arms(fn)
    last = m["arms"][-1]
    body = canon(synq.strip_block(last["b"]))
    pat = canon(last["p"])
    run.check(body.endswith(".is_functionally_equivalent_to(expected, false)"), fn.site(last["ln"]), "fall-through: %s => %s" % (pat, body), "Ty::can_fit_into",
              "fallthrough", fn.file, last["ln"], "can_fit_into's last arm must be is_functionally_equivalent_to(expected, false) (literal false); found %s" % body)
    # every use of is_functionally_equivalent_to inside can_fit_into passes literal false
    for c in synq.mcalls(fn.body, "is_functionally_equivalent_to"):
        run.check(canon(c["a"][1]) == "false", fn.site(c["ln"]), "can_fit_into -> is_functionally_equivalent_to(_, false)", "Ty::can_fit_into", "lossy-call", fn.file,
                  c["ln"], "acceptance must never use the distinction-losing equivalence (second argument must be the literal false)")
    eq = ctx.syn.fn("Ty::is_functionally_equivalent_to", "hir/src/common/ty.rs")
    m2, rows2 = tuple_arms(eq, "(self, other)")
    flag = eq.param_names()[2]
    for fp, ep, arm in rows2:
        fh, eh = head(fp), head(ep)
        if fh in ("Distinct", "EnumVariant") and eh == "_":
            b = synq.strip_block(arm["b"])
            good = b["k"] == "bin" and b["op"] == "&&" and canon(b["l"]) == flag
            run.check(good, eq.site(arm["ln"]), "(%s, other) arm guarded by %s" % (fh, flag), "Ty::is_functionally_equivalent_to", "guard:%s" % fh, eq.file, arm["ln"],
                      "the (%s, other) arm must be `%s && ...`: otherwise a %s is equivalent to its underlying type for acceptance" % (fh, flag, fh))
        # recursive calls must forward the flag unchanged
    for c in synq.mcalls(eq.body, "is_functionally_equivalent_to"):
        run.check(canon(c["a"][1]) == flag, eq.site(c["ln"]), "recursive call forwards %s" % flag, "Ty::is_functionally_equivalent_to", "forward", eq.file, c["ln"],
                  "recursive is_functionally_equivalent_to call must forward %s, found %s" % (flag, canon(c["a"][1])))


def r13e(ctx, run):
    """on the acceptance path (flag == false) same-kind nominal pairs must not be compared ignoring uids"""
    eq = ctx.syn.fn("Ty::is_functionally_equivalent_to", "hir/src/common/ty.rs")
    m2, rows2 = tuple_arms(eq, "(self, other)")
    flag = eq.param_names()[2]
    seen = set()
    settled = set()
    for fp, ep, arm in rows2:
        fh, eh = head(fp), head(ep)
        if fh in NOMINAL and eh == fh:
            if fh in settled:
                continue
            fb, eb = bindings(fp), bindings(ep)
            body = canon(synq.strip_block(arm["b"]))
            guard = canon(arm.get("g")) if arm.get("g") is not None else ""
            ua = [n for n, f in fb.items() if f == "uid"]
            ub = [n for n, f in eb.items() if f == "uid"]
            # form 1: an earlier arm `(K{uid:a}, K{uid:b}) if !flag && a != b => false`
            if ua and ub and body == "false" and guard.replace(" ", "") in ("(!%s&&(%s!=%s))" % (flag, ua[0], ub[0]), "(!%s&&(%s!=%s))" % (flag, ub[0], ua[0])):
                settled.add(fh)
                seen.add((fh, arm["ln"]))
                run.ok(eq.site(arm["ln"]), "(%s, %s): different uids are not equivalent unless %s" % (fh, eh, flag))
                continue
            if (fh, arm["ln"]) in seen:
                continue
            seen.add((fh, arm["ln"]))
            settled.add(fh)
            has_uid = bool(ua) and bool(ub)
            mentions_flag_or_uid = has_uid and any(n in body for n in ua)
            # ok if: uids compared, or the structural comparison is only allowed under the flag
            guarded = body.startswith("(%s &&" % flag) or ("(%s ||" % flag) in body
            run.check(mentions_flag_or_uid or guarded, eq.site(arm["ln"]), "(%s, %s) arm keeps identity when %s is false" % (fh, eh, flag),
                      "Ty::is_functionally_equivalent_to", "nominal-pair:%s" % fh, eq.file, arm["ln"],
                      "the (%s, %s) arm compares only the underlying structure and ignores the uids even when %s is false; through the "
                      "pointer/slice/array arms of can_fit_into a ^A / []A / [n]A is then accepted where ^B / []B / [n]B is expected for two "
                      "different nominal types with equal structure" % (fh, eh, flag))
    if len(seen) < 3:
        raise LookupError("same-kind nominal arms in is_functionally_equivalent_to: %s" % sorted(seen))


def r13c(ctx, run):
    fn = ctx.syn.fn("Ty::can_cast_to", "hir/src/common/ty.rs")
    m, rows = tuple_arms(fn, "(self, cast_into)")
    have = {}
    for fp, ep, arm in rows:
        have.setdefault((head(fp), head(ep)), (arm, canon(synq.strip_block(arm["b"]))))
    for key, what in ((("Distinct", "_"), "distinct -> underlying"), (("_", "Distinct"), "underlying -> distinct"),
                      (("EnumVariant", "_"), "variant -> payload"), (("_", "EnumVariant"), "payload -> variant")):
        got = have.get(key)
        good = got is not None and got[1].endswith(".can_cast_to(to)")
        run.check(good, fn.site(got[0]["ln"] if got else m["ln"]), "can_cast_to %s: %s" % (what, got[1] if got else None), "Ty::can_cast_to", "cast:%s,%s" % key,
                  fn.file, got[0]["ln"] if got else m["ln"], "explicit cast %s must be accepted by recursing on the underlying type" % what)
    first = fn.body["s"][0]
    good = first["k"] == "expr" and first["e"]["k"] == "if" and canon(first["e"]["c"]) == "self.can_fit_into(cast_into)"
    run.check(good, fn.site(first["ln"]), "fits => casts (early return)", "Ty::can_cast_to", "fits-implies-casts", fn.file, first["ln"],
              "can_cast_to must start by accepting everything can_fit_into accepts")


ALLOWED_LOSSY = {
    # caller (generics-stripped suffix) : reason
    "codegen::compiler::cast_into_memory": "explicit cast code generation (no-op copy when only the nominal wrapper differs)",
    "codegen::compiler::functions::FunctionCompiler::compile_and_cast_into_memory": "explicit cast code generation",
    "codegen::compiler::functions::FunctionCompiler::store_expr_in_memory": "explicit cast code generation",
    "codegen::compiler::cast_struct_to_struct": "explicit struct cast code generation",
    "codegen::compiler::cast": "explicit cast code generation",
    "hir::common::ty::Ty::can_cast_to": "explicit casts may lose distinction",
    "hir::common::ty::Ty::is_functionally_equivalent_to": "recursion forwards the flag (checked by R13.b)",
    "hir::common::ty::Ty::has_default_value": "not acceptance",
}


def r13d(ctx, run):
    """who may call is_functionally_equivalent_to with a flag that is not the constant false"""
    F = ctx.facts
    n = 0
    for fn in F.fns:
        for c in fn.calls():
            if not c.callee.endswith("Ty::is_functionally_equivalent_to"):
                continue
            n += 1
            flag = fn.chain_operand(c.args[2])
            const_false = flag.get("kind") == "scalar" and flag.get("value") == "false"
            owner = fn.parent or fn.norm
            from facts import strip_generics
            owner = strip_generics(owner)
            if const_false:
                run.ok(c.site(), "%s calls is_functionally_equivalent_to(_, false)" % owner)
                continue
            allowed = [k for k in ALLOWED_LOSSY if owner == k or owner.endswith("::" + k) or k.endswith(owner)]
            if allowed:
                run.exempt(c.site(), "%s calls the lossy equivalence" % owner, ALLOWED_LOSSY[allowed[0]])
            elif fn.crate == "codegen":
                # the code generator asks whether two ACCEPTED types share a representation; it cannot make the checker accept anything
                run.exempt(c.site(), "%s calls the lossy equivalence" % owner, "code generation: a question about representations, asked after acceptance was decided")
            else:
                run.finding(owner, "lossy-call", c.file, c.ln,
                            "%s calls is_functionally_equivalent_to with a flag that is not the constant false; only cast/codegen sites may lose distinction" % owner)
    if n < 8:
        raise LookupError("calls to is_functionally_equivalent_to: %d" % n)
    # hir_ty (the acceptance side) must not call it with true at all
    for fn in F.fns:
        if fn.crate != "hir_ty":
            continue
        for c in fn.calls():
            if c.callee.endswith("Ty::is_functionally_equivalent_to"):
                flag = fn.chain_operand(c.args[2])
                good = flag.get("kind") == "scalar" and flag.get("value") == "false"
                run.check(good, c.site(), "type checker call passes false", fn.norm, "hir_ty-lossy", c.file, c.ln,
                          "the type checker must not use the distinction-losing equivalence")


def r13f(ctx, run):
    """binary operations: the common type of a nominal wrapper and its own (sized) underlying type must not exist.
    Ty::max decides (non-distinct, Distinct) pairs through has_semantics_of; that predicate is evaluated abstractly for
    Distinct/EnumVariant over every scalar kind against that same kind."""
    from absint import Interp, Variant, Term, Panic, CannotEstablish
    hs = ctx.syn.fn("Ty::has_semantics_of", "hir/src/common/ty.rs")
    mx = ctx.syn.fn("Ty::max", "hir/src/common/ty.rs")
    # Ty::max routes mixed pairs through has_semantics_of (anchor of the clause)
    n_routes = len([c for c in synq.mcalls(mx.body, "has_semantics_of")])
    run.check(n_routes >= 2, mx.site(), "Ty::max decides (plain, distinct) and (distinct, plain) through has_semantics_of", "Ty::max", "routes", mx.file, mx.ln,
              "Ty::max no longer decides mixed distinct/plain pairs through has_semantics_of: the nominal clause for binary operations is not established")
    scalars = {
        "i32": Variant("Ty::IInt", {"0": 32}), "u8": Variant("Ty::UInt", {"0": 8}), "usize": Variant("Ty::UInt", {"0": 255}), "f32": Variant("Ty::Float", {"0": 32}),
        "f64": Variant("Ty::Float", {"0": 64}), "bool": Variant("Ty::Bool"), "char": Variant("Ty::Char"), "str": Variant("Ty::String"),
    }
    weak = {"{int}": Variant("Ty::IInt", {"0": 0}), "{uint}": Variant("Ty::UInt", {"0": 0}), "{float}": Variant("Ty::Float", {"0": 0})}
    # Ty::max, has_semantics_of and can_fit_into all evaluated from their own source (the evaluator of C12): no model of the acceptance relation of
    # my own stands in for them (an earlier version answered `plain fits distinct` with false, which the code does not, and went blind to seed C13-2
    # once Ty::max began to ask can_fit_into)
    import c12
    world = c12.World(ctx)

    def run_max(a, b):
        return world.call("max", a, [b])

    for wrapper in ("Distinct", "EnumVariant"):
        for kn, kv in scalars.items():
            payload = {"uid": 7, "sub_ty": kv} if wrapper == "Distinct" else {"enum_uid": 3, "variant_name": Term("n"), "uid": 7, "sub_ty": kv, "discriminant": 0}
            w = Variant("Ty::" + wrapper, payload)
            for order, (a, b) in (("wrapper,plain", (w, kv)), ("plain,wrapper", (kv, w))):
                try:
                    got = run_max(a, b)
                except (Panic, CannotEstablish) as c:
                    run.finding("Ty::max", "mix:%s:%s:%s" % (wrapper, kn, order), mx.file, mx.ln,
                                "cannot establish Ty::max(%s) for a %s over %s: %s" % (order, wrapper.lower(), kn, getattr(c, "what", c)))
                    continue
                none = got is None or (isinstance(got, Variant) and got.last == "None")
                if not none:
                    run.finding("Ty::max", "mix:%s:%s" % (wrapper, kn), mx.file, mx.ln,
                                "Ty::max(%s) of a %s over %s and plain %s is %r: a binary operation mixing a nominal value with a value of its own underlying type "
                                "is accepted without a cast (has_semantics_of unwraps the wrapper)" % (order, wrapper.lower(), kn, kn, got))
                    break
                run.ok(mx.site(), "max(%s) of %s over %s and %s: no common type" % (order, wrapper.lower(), kn, kn))


def r13g(ctx, run):
    """assignments: `dest = value` is decided by expect_match(value's type -> dest's type) like every other acceptance site, unless the destination is
    still weakly typed (an unannotated `x := 5` adapts to what it is assigned).  The plain-assignment arm of infer_expr is evaluated from source on
    (destination type, value type) pairs in which the value's type is nominal (a distinct, or a slice / pointer / array / optional of one) and the
    destination's is the type underneath: a sized destination must send the pair to expect_match - taking the other branch (the destination is
    "replaced" by the value's type) accepts a `[]Meters` in a `[]i32` variable without a cast."""
    import c07, c12
    from absint import Obj, Term, Variant, Panic, CannotEstablish, _Return
    V = Variant
    G = "hir_ty/src/globals.rs"
    fn = ctx.syn.fn("GlobalInferenceCtx::infer_expr", G)
    arms = []
    for m in synq.matches_on(fn.body):
        if "quick_assign_op" in canon(m["e"]):
            for h, p_, g, b, a in synq.match_table(m):
                if canon(a["p"]) == "None" and "expect_match" in canon(b):
                    arms.append((b, a))
    if len(arms) != 1:
        raise LookupError("the plain-assignment arm (`None`) of infer_expr's match on quick_assign_op: %d" % len(arms))
    body, arm = arms[0]
    QI = c07.make_ty_interp(ctx)
    world = c12.World(ctx)
    i32 = V("Ty::IInt", {"0": 32})
    meters = V("Ty::Distinct", {"uid": 1, "sub_ty": i32})
    wrap = {
        "T": lambda t: t, "[]T": lambda t: V("Ty::Slice", {"sub_ty": t}), "^T": lambda t: V("Ty::Pointer", {"mutable": False, "sub_ty": t}),
        "^mut T": lambda t: V("Ty::Pointer", {"mutable": True, "sub_ty": t}), "[2]T": lambda t: V("Ty::ConcreteArray", {"size": 2, "sub_ty": t}),
        "?T": lambda t: V("Ty::Optional", {"sub_ty": t}), "[]^T": lambda t: V("Ty::Slice", {"sub_ty": V("Ty::Pointer", {"mutable": False, "sub_ty": t})}),
    }
    n = 0
    for wn, w in wrap.items():
        for dn, d_, vn, v_ in (("i32", i32, "Meters", meters), ("Meters", meters, "i32", i32)):
            D, Vt = w(d_), w(v_)
            calls = []

            class RI(QI):
                def default_method(self, recv, m_, args, e):
                    if isinstance(recv, Obj) and recv.name == "self" and m_ in ("replace_weak_tys", "expect_match"):
                        calls.append((m_, args))
                        return True
                    return super().default_method(recv, m_, args, e)
            it = RI(funcs={"ExpectedTy::Concrete": lambda i, a: ("concrete", a[0])}) if False else RI()
            it.funcs["ExpectedTy::Concrete"] = lambda i, a: ("concrete", a[0])
            env = {"self": Obj("self"), "assign_body": Obj("assign_body", dest=Term("dest"), value=Term("value")), "dest_ty": D, "value_ty": Vt}
            desc = "%s = %s" % (wn.replace("T", dn), wn.replace("T", vn))
            key = "assign:" + desc
            try:
                try:
                    it.eval(body, env)
                except _Return:
                    pass
                fits = world.call("can_fit_into", Vt, [D], top=True)
                weak_dest = world.call("might_be_weak", D, [], top=True)
            except (Panic, CannotEstablish) as c:
                run.finding(fn.qual, key, fn.file, arm["ln"], "cannot establish how the assignment %s is decided: %s" % (desc, getattr(c, "what", c)))
                continue
            n += 1
            checked = any(m_ == "expect_match" and a[0] == Vt and a[1] == ("concrete", D) for m_, a in calls)
            run.check(checked or fits is True or weak_dest is True, fn.site(arm["ln"]), "%s: %s" % (desc, "sent to expect_match" if checked else "accepted (the value fits)"), fn.qual, key,
                      fn.file, arm["ln"],
                      "the assignment `%s` is accepted without asking expect_match: the arm calls %s - the value's type does not fit the destination's (can_fit_into is false) and "
                      "the destination is not weakly typed, so a value of a nominal type ends up in a variable of another type without a cast"
                      % (desc, [m_ for m_, a in calls] or "nothing"))
    if n < 10:
        raise LookupError("assignment pairs evaluated: %d" % n)


def rules(ctx):
    return [
        Rule("R13.a", "can_fit_into evaluated on symbolic nominal types: same type accepted; different uid, or same declaration uid with different arguments, rejected; variant fits only its own enum; wrapper never accepted as its underlying type", 20, r13a),
        Rule("R13.b", "fall-through keeps distinction: literal false, guarded (Distinct|EnumVariant, other) arms, flag forwarded", 10, r13b),
        Rule("R13.c", "explicit casts between nominal wrapper and underlying type are accepted in both directions", 5, r13c),
        Rule("R13.d", "distinction-losing equivalence is called only from cast/codegen sites (who-may-call, resolved)", 8, r13d),
        Rule("R13.f", "binary operations: a nominal wrapper has no common type with its own sized underlying type (has_semantics_of), literals excepted", 20, r13f),
        Rule("R13.g", "assignments are decided by expect_match(value -> destination) unless the destination is weakly typed (plain-assignment arm of infer_expr evaluated on nominal pairs)", 10, r13g),
        Rule("R13.e", "nested nominal pairs keep their identity on the acceptance path", 3, r13e),
    ]

"""C09 — literals denote their written values or are rejected (DESIGN §3 C09)."""
import re
from core import Rule
from absint import _Return, Interp, Obj, Term, Variant, Panic, CannotEstablish
import synq
from synq import canon, walk

PROPERTY = "C09"
TITLE = "Literals denote exactly their written values or are rejected"
NEEDS = ("syn",)
TECHNIQUE = "static analysis: table extraction from syntax tree + abstract evaluation of range/defaulting tables, cross-crate agreement, abstract evaluation of the literal arms of the function compiler and of the constant-data builder for every numeric type"
EXPLANATION = (
    "Static table extraction (engine B): (a) the escape tables of lower_string_literal and lower_char_literal are "
    "extracted from their match arms, compared with each other and with the reference table, default arm must report "
    "InvalidEscape; (b) lower_int_literal performs only checked arithmetic/parsing and every failure arm reports "
    "OutOfRangeIntLiteral, radix per literal kind; (c) Ty::get_max_int_size is evaluated abstractly for every width and "
    "compared with min(type max, u64::MAX), and both users compare with `>` and report IntTooBigForType; (d) the "
    "weak-literal widening thresholds in reinfer_expr are compared with the largest value of the type that "
    "codegen::convert::finalize_int and layout.rs give a still-weak literal (cross-crate agreement).")
NOT_DECIDED = [
    "the logos-generated lexer DFA's recognition of literal spellings (generated code)",
    "float literal rounding (delegated to str::parse::<f64> and `as f32`)",
    "char literal range check beyond the table (NonU8CharLiteral path is value-level)",
]
ASSUMPTIONS = ["u64::from_str_radix / str::parse / checked_* have their documented std semantics"]

REF = {"0": 0, "a": 7, "b": 8, "n": 10, "f": 12, "r": 13, "t": 9, "v": 11, "e": 27, '"': 34, "'": 39, "\\": 92}


def escape_table(fn):
    ms = [m for m in synq.matches_on(fn.body) if canon(m["e"]) == "escape_char"]
    if len(ms) != 1:
        raise LookupError("match escape_char in %s" % fn.qual)
    tbl, default = {}, None
    for head, pat, g, body, arm in synq.match_table(ms[0]):
        if pat["k"] == "p_wild":
            default = (body, arm)
            continue
        if pat["k"] != "p_lit":
            tbl["?" + canon(pat)] = (None, arm)
            continue
        ch = pat["v"]
        # 'x' or '\\x'
        inner = ch[1:-1]
        key = {"\\'": "'", "\\\\": "\\", '\\"': '"'}.get(inner, inner)
        b = synq.strip_block(body)
        val = None
        if b["k"] == "mcall" and b["m"] == "push" and canon(b["r"]) == "text" and b["a"][0]["k"] == "lit":
            val = ord(b["a"][0]["v"]) if len(b["a"][0]["v"]) == 1 else None
        tbl[key] = (val, arm)
    return ms[0], tbl, default


def r09a(ctx, run):
    tables = {}
    for name in ("lower_string_literal", "lower_char_literal"):
        fn = ctx.syn.fn("Ctx::" + name, "hir/src/body.rs")
        m, tbl, default = escape_table(fn)
        tables[name] = tbl
        for key, want in REF.items():
            got = tbl.get(key)
            site = fn.site(got[1]["ln"] if got else m["ln"])
            if got is None:
                run.finding("Ctx::" + name, "escape:%s" % key, fn.file, m["ln"], "escape \\%s has no arm (property: every valid escape denotes its character)" % key)
            elif got[0] != want:
                run.finding("Ctx::" + name, "escape:%s" % key, fn.file, got[1]["ln"], "escape \\%s pushes char %s, must be %d" % (key, got[0], want))
            else:
                run.ok(site, "%s: \\%s -> %d" % (name, key, want))
        for key in tbl:
            if key not in REF:
                run.finding("Ctx::" + name, "escape-extra:%s" % key, fn.file, tbl[key][1]["ln"], "escape \\%s accepted but not in the language's escape table" % key)
        if default is None or "InvalidEscape" not in canon(default[0]):
            run.finding("Ctx::" + name, "escape-default", fn.file, m["ln"], "unknown escapes must be reported as InvalidEscape in the default arm")
        else:
            run.ok(fn.site(default[1]["ln"]), "%s: default arm reports InvalidEscape" % name)
    a, b = tables["lower_string_literal"], tables["lower_char_literal"]
    same = {k: v[0] for k, v in a.items()} == {k: v[0] for k, v in b.items()}
    fn = ctx.syn.fn("Ctx::lower_char_literal", "hir/src/body.rs")
    run.check(same, fn.site(), "string and char escape tables are identical (sibling cross-check)", "Ctx::lower_char_literal",
              "escape-siblings", fn.file, fn.ln, "string and char literal escape tables differ")


def r09b(ctx, run):
    fn = ctx.syn.fn("Ctx::lower_int_literal", "hir/src/body.rs")
    # unchecked arithmetic operators / methods on the value
    bad_ops = [n for n in walk(fn.body) if n.get("k") == "bin" and n["op"] in ("*", "+", "<<", "-", "*=", "+=")]
    bad_m = [n for n in walk(fn.body) if n.get("k") == "mcall" and (n["m"] in ("pow", "unwrap_or", "unwrap_or_default", "saturating_mul", "saturating_pow")
                                                                     or n["m"].startswith("wrapping_") or n["m"].startswith("overflowing_"))]
    for n in bad_ops:
        run.finding("Ctx::lower_int_literal", "unchecked:%s" % n["op"], fn.file, n["ln"], "unchecked arithmetic `%s` on a literal value: %s" % (n["op"], canon(n)[:80]))
    for n in bad_m:
        run.finding("Ctx::lower_int_literal", "unchecked:.%s" % n["m"], fn.file, n["ln"], "non-checked method .%s() on a literal value" % n["m"])
    if not bad_ops and not bad_m:
        run.ok(fn.site(), "no unchecked arithmetic on the literal value")
    # the three kinds and their parse sites
    ms = [m for m in synq.matches_on(fn.body) if canon(m["e"]) == "value"]
    if not ms:
        raise LookupError("match value in lower_int_literal")
    arms = {synq.last_seg(h): (b, arm) for h, p, g, b, arm in synq.match_table(ms[0])}
    for kind, radix in (("Hex", "16"), ("Bin", "2")):
        if kind not in arms:
            run.finding("Ctx::lower_int_literal", "kind:" + kind, fn.file, ms[0]["ln"], "no arm for IntValue::%s" % kind)
            continue
        b, arm = arms[kind]
        cs = [c for c in synq.calls(b, "from_str_radix")]
        good = len(cs) == 1 and canon(cs[0]["f"]) == "u64::from_str_radix" and canon(cs[0]["a"][1]) == radix
        run.check(good, fn.site(arm["ln"]), "%s literal parsed with u64::from_str_radix(_, %s)" % (kind, radix), "Ctx::lower_int_literal",
                  "radix:" + kind, fn.file, arm["ln"], "%s literal must be parsed with u64::from_str_radix(_, %s)" % (kind, radix))
        pref = [c for c in synq.mcalls(b, "strip_prefix")]
        good = len(pref) == 1 and canon(pref[0]["a"][0]) == ('"0x"' if kind == "Hex" else '"0b"')
        run.check(good, fn.site(arm["ln"]), "%s literal strips its prefix" % kind, "Ctx::lower_int_literal", "prefix:" + kind, fn.file, arm["ln"],
                  "%s literal must strip exactly its 0x/0b prefix" % kind)
        errs = [n for n in walk(b) if n.get("k") == "path" and n["p"].endswith("OutOfRangeIntLiteral")]
        run.check(len(errs) >= 1 and "Expr::Missing" in canon(b), fn.site(arm["ln"]), "%s: parse failure reports OutOfRangeIntLiteral and yields Missing" % kind,
                  "Ctx::lower_int_literal", "err:" + kind, fn.file, arm["ln"], "%s: parse failure must report OutOfRangeIntLiteral" % kind)
    if "Dec" in arms:
        b, arm = arms["Dec"]
        c = canon(b)
        run.check(".replace('_', \"\")" in c, fn.site(arm["ln"]), "decimal: `_` separators removed", "Ctx::lower_int_literal", "dec:sep", fn.file, arm["ln"],
                  "decimal literal must drop `_` separators before parsing")
        run.check("split(['e', 'E'])" in c, fn.site(arm["ln"]), "decimal: split at e/E", "Ctx::lower_int_literal", "dec:exp-split", fn.file, arm["ln"],
                  "decimal literal must split mantissa/exponent at e or E")
        parse = [m for m in synq.mcalls(b, "parse")]
        run.check(any(m.get("tf") and "u64" in m["tf"] for m in parse), fn.site(arm["ln"]), "decimal: mantissa parsed as u64", "Ctx::lower_int_literal",
                  "dec:parse", fn.file, arm["ln"], "decimal mantissa must be parsed as u64 (checked)")
        cp = synq.mcalls(b, "checked_pow")
        cm = synq.mcalls(b, "checked_mul")
        good = len(cp) == 1 and canon(cp[0]["r"]) in ("10_u64", "10u64", "10") and len(cm) == 1 and canon(cm[0]["r"]) == "base"
        run.check(good, fn.site(arm["ln"]), "decimal: value = base.checked_mul(10.checked_pow(exp))", "Ctx::lower_int_literal", "dec:exp", fn.file, arm["ln"],
                  "exponent form must be base * 10^exp with checked_pow/checked_mul")
        errs = [n for n in walk(b) if n.get("k") == "path" and n["p"].endswith("OutOfRangeIntLiteral")]
        run.check(len(errs) >= 2, fn.site(arm["ln"]), "decimal: both failure arms report OutOfRangeIntLiteral", "Ctx::lower_int_literal", "dec:err", fn.file,
                  arm["ln"], "both decimal failure arms (mantissa, exponent) must report OutOfRangeIntLiteral")
        run.check("Expr::IntLiteral(val)" in c, fn.site(arm["ln"]), "decimal: result is the computed value", "Ctx::lower_int_literal", "dec:result",
                  fn.file, arm["ln"], "decimal arm must yield Expr::IntLiteral(val)")
    else:
        run.finding("Ctx::lower_int_literal", "kind:Dec", fn.file, ms[0]["ln"], "no arm for IntValue::Dec")


U64MAX = (1 << 64) - 1


def r09c(ctx, run):
    fn = ctx.syn.fn("Ty::get_max_int_size", "hir/src/common/ty.rs")
    for signed in (True, False):
        for w in (8, 16, 32, 64, 128, 255):
            tyv = Variant("Ty::IInt" if signed else "Ty::UInt", {"0": w})
            name = ("i" if signed else "u") + ("size" if w == 255 else str(w))
            it = Interp()
            try:
                v = it.run_fn(fn, {"self": tyv})
            except Panic as p:
                run.finding("Ty::get_max_int_size", name, fn.file, fn.ln, "get_max_int_size(%s) panics: %s" % (name, p.what))
                continue
            if isinstance(v, Variant) and v.last == "None":
                v = None
            if w == 255:
                allowed = ({(1 << 63) - 1, (1 << 31) - 1} if signed else {U64MAX, (1 << 32) - 1})
                okv = v in allowed or (v is None and not signed)  # every u64 literal fits a 64-bit usize
                want = "pointer-width maximum (%s)" % sorted(allowed)
            else:
                true_max = ((1 << (w - 1)) - 1) if signed else ((1 << w) - 1)
                want_v = min(true_max, U64MAX)
                okv = v == want_v or (v is None and want_v == U64MAX)
                want = str(want_v) + (" (or no limit)" if want_v == U64MAX else "")
            if okv:
                run.ok(fn.site(), "get_max_int_size(%s) = %s" % (name, v))
            else:
                run.finding("Ty::get_max_int_size", name, fn.file, fn.ln,
                            "get_max_int_size(%s) = %s, but a literal fits %s iff value <= %s" % (name, v, name, want))
    # Distinct forwards
    it = Interp(methods={"get_max_int_size": lambda i, r, a: ("fwd", r)})
    v = it.run_fn(fn, {"self": Variant("Ty::Distinct", {"sub_ty": Term("sub"), "uid": 1})})
    run.check(v == ("fwd", Term("sub")), fn.site(), "Distinct forwards to its underlying type", "Ty::get_max_int_size", "distinct", fn.file, fn.ln,
              "Distinct must forward get_max_int_size to sub_ty")
    # users
    n_users = 0
    for f in ctx.syn.fns_in("hir_ty/src/globals.rs"):
        if f.body is None:
            continue
        for n in walk(f.body):
            if n.get("k") == "if" and n["c"]["k"] == "let" and "get_max_int_size" in canon(n["c"]["e"]):
                n_users += 1
                bound = canon(n["c"]["p"])
                inner = [x for x in n["t"]["s"] if x["k"] == "expr" and x["e"]["k"] == "if"]
                good = False
                cond = ""
                if inner:
                    ie = inner[0]["e"]
                    cond = canon(ie["c"])
                    good = cond in ("(num > max_size)", "(*num > max_size)", "(max_size < num)", "(max_size < *num)") and "IntTooBigForType" in canon(ie["t"])
                run.check(good and bound == "Some(max_size)", f.site(n["ln"]), "%s: literal > max  =>  IntTooBigForType (%s)" % (f.qual, cond),
                          f.qual, "user", f.file, n["ln"], "user of get_max_int_size must reject exactly values > max with IntTooBigForType; found condition %s" % cond)
                # the type whose range is tested must be the type the literal is actually given: the receiver of
                # get_max_int_size is the very variable last written into expr_tys for this expression, unchanged in between
                recv = n["c"]["e"]
                while recv.get("k") in ("mcall",) and recv["m"] != "get_max_int_size":
                    recv = recv["r"]
                rname = canon(recv["r"]) if recv.get("k") == "mcall" else "?"
                writes = []
                for x in walk(f.body):
                    if x.get("k") == "mcall" and x["m"] == "insert" and canon(x["r"]).endswith("expr_tys") and len(x["a"]) == 2 and canon(x["a"][0]) == "expr":
                        writes.append((x["ln"], canon(x["a"][1])))
                    if x.get("k") == "assign" and x["l"].get("k") == "index" and canon(x["l"]["e"]).endswith("expr_tys") and canon(x["l"]["i"]) == "expr":
                        writes.append((x["ln"], canon(x["r"])))
                before = sorted(w for w in writes if w[0] <= n["ln"])
                rebinds = [x for x in walk(f.body) if before and before[-1][0] < x.get("ln", 0) <= n["ln"] and (
                    (x.get("k") == "assign" and canon(x["l"]) == rname) or
                    (x.get("k") == "local" and any(y.get("k") == "p_ident" and y["n"] == rname for y in walk(x["p"]))))]
                same = bool(before) and before[-1][1] == rname and not rebinds
                run.check(same, f.site(n["ln"]), "%s: the range-checked type `%s` is the type just recorded for the literal" % (f.qual, rname),
                          f.qual, "user-type", f.file, n["ln"],
                          "the literal is given type `%s` (expr_tys write at line %s) but its range is tested against `%s`: a literal can be accepted at a type "
                          "it does not fit" % (before[-1][1] if before else "?", before[-1][0] if before else "?", rname))
    if n_users < 2:
        raise LookupError("users of get_max_int_size in globals.rs: %d" % n_users)


def r09d(ctx, run):
    """weak literal widening thresholds vs the type codegen gives a still-weak literal"""
    # what codegen does with weak ints: finalize_int(0, _) and layout size
    conv = ctx.syn.fn("calc_single", "codegen/src/convert.rs")
    clos = [s["init"] for s in conv.body["s"] if s["k"] == "local" and s["p"].get("n") == "finalize_int"][0]
    import c08
    it = c08.I()
    v = it.eval(clos["b"], {clos["params"][0]["n"]: 0, clos["params"][1]["n"]: True, "ptr_ty": Variant("types::PTR")})
    nt = v.payload["0"]
    bits = c08.BITS[nt.fields["ty"].last]
    signed = nt.fields["signed"]
    weak_max = (1 << (bits - 1)) - 1 if signed else (1 << bits) - 1
    run.ok(conv.site(clos["ln"]), "codegen finalises weak ints as %s%d (max %d)" % ("i" if signed else "u", bits, weak_max))
    # layout agreement
    lay = [f for f in ctx.syn.fns_in("codegen/src/layout.rs") if f.body is not None]
    found_layout = False
    for f in lay:
        for m in synq.matches_on(f.body):
            for h, p, g, b, arm in synq.match_table(m):
                if canon(p) in ("Ty::IInt(0)", "Ty::UInt(0)"):
                    sz = synq.int_value(synq.strip_block(b))
                    if sz is not None:
                        found_layout = True
                        run.check(sz * 8 == bits, f.site(arm["ln"]), "layout size of %s = %d bytes" % (canon(p), sz), f.qual, "weak-size:" + canon(p),
                                  f.file, arm["ln"], "layout gives weak int %d bytes but finalize_int gives %d bits" % (sz, bits))
    if not found_layout:
        raise LookupError("weak int size arm in layout.rs")
    # thresholds
    n = 0
    for f in ctx.syn.fns_in("hir_ty/src/globals.rs"):
        if f.body is None:
            continue
        for m in synq.matches_on(f.body):
            for h, p, g, b, arm in synq.match_table(m):
                if canon(p) in ("Ty::IInt(0)", "Ty::UInt(0)") and g is not None and g["k"] == "bin" and g["op"] in (">", ">="):
                    thr = synq.int_value(g["r"])
                    if thr is None or "num" not in canon(g["l"]):
                        continue
                    n += 1
                    eff = thr if g["op"] == ">" else thr - 1
                    target = canon(synq.strip_block(b))
                    okv = eff <= weak_max
                    run.check(okv, f.site(arm["ln"]), "%s literal stays weak up to %d (<= %d), beyond -> %s" % (canon(p), eff, weak_max, target),
                              f.qual, "weak-threshold:" + canon(p), f.file, arm["ln"],
                              "a %s literal up to %d keeps its weak type, but codegen gives weak ints %s%d (max %d): values in (%d, %d] change at runtime"
                              % (canon(p), eff, "i" if signed else "u", bits, weak_max, weak_max, eff))
                    # the widened type must be 64-bit of the same signedness family
                    want_t = "Ty::IInt(64).into()" if "IInt" in canon(p) else "Ty::UInt(64).into()"
                    run.check(target == want_t, f.site(arm["ln"]), "%s widens to %s" % (canon(p), target), f.qual, "weak-widen:" + canon(p), f.file, arm["ln"],
                              "weak literal above the threshold must widen to %s, found %s" % (want_t, target))
    if n < 2:
        raise LookupError("weak literal widening thresholds in globals.rs (found %d)" % n)


def guarded_propagations(fn):
    """for replace_weak_tys: (arm head, call node, [non-structural guards]) for every recursive propagation call inside the
    match over the expression kind.  A guard is *structural* when it only tests the presence/shape of a child
    (`if let Some(x) = child`, `if let hir::Stmt::Break { value: Some(v), .. } = ...`, `match usage`, `for`)."""
    ms = [m for m in synq.matches_on(fn.body) if canon(m["e"]) == "expr_body"]
    if len(ms) != 1:
        raise LookupError("match expr_body in replace_weak_tys (found %d)" % len(ms))
    out = []

    def visit(n, guards, head):
        if isinstance(n, list):
            for x in n:
                visit(x, guards, head)
            return
        if not isinstance(n, dict):
            return
        k = n.get("k")
        if k == "mcall" and n["m"] == fn.name and canon(n["r"]) == "self":
            out.append((head, n, list(guards)))
        if k == "closure":
            return
        if k == "if":
            c = n["c"]
            visit(c, guards, head)
            structural = c.get("k") == "let" or (c.get("k") == "mcall" and c["m"] == fn.name)
            g2 = guards if structural else guards + [("if", canon(c)[:60], n["ln"])]
            visit(n["t"], g2, head)
            if n.get("e") is not None:
                visit(n["e"], g2, head)
            return
        if k == "match":
            visit(n["e"], guards, head)
            for a in n["arms"]:
                g2 = guards
                if a.get("g") is not None:
                    g2 = guards + [("match-guard", canon(a["g"])[:60], a.get("ln", n["ln"]))]
                visit(a["b"], g2, head)
            return
        for key, v in n.items():
            if key in ("k", "ln", "end"):
                continue
            if isinstance(v, (dict, list)):
                visit(v, guards, head)
    for h, p, g, b, arm in synq.match_table(ms[0]):
        guards = []
        if g is not None:
            # a guard on the arm itself selects the expression form (e.g. `ty: None`): structural
            pass
        visit(b, guards, synq.last_seg(h) if h else canon(p)[:30])
    return ms[0], out


def r09e(ctx, run):
    """weak-type replacement reaches every value-determining child of a transparent expression form, unconditionally"""
    f = ctx.syn.fn("GlobalInferenceCtx::replace_weak_tys", "hir_ty/src/globals.rs")
    m, props = guarded_propagations(f)
    heads = {}
    for head, call, guards in props:
        heads.setdefault(head, []).append((call, guards))
    want = ("ArrayLiteral", "Paren", "Block", "If", "While", "Switch", "Comptime", "Deref", "Ref", "Binary", "Unary", "Local", "StructLiteral")
    for h in want:
        if h not in heads:
            run.finding(f.qual, "propagate:" + h, f.file, m["ln"], "Expr::%s does not pass the new type on to its sub-expressions: a weakly typed literal inside it keeps "
                        "its 32-bit default while the enclosing expression is given the wider type" % h)
            continue
        for i, (call, guards) in enumerate(heads[h]):
            desc = "propagate:%s#%d" % (h, i)
            if guards:
                run.finding(f.qual, desc, f.file, call["ln"], "Expr::%s: the new type is passed on to `%s` only under the non-structural condition %s: when it is false "
                            "the sub-expression keeps its weak (32-bit) type while the enclosing expression is recorded at the new type, so the value is computed "
                            "at the wrong width" % (h, canon(call["a"][0])[:30], ["%s@%s" % (g[1], g[2]) for g in guards]))
            else:
                run.ok(f.site(call["ln"]), "Expr::%s passes the new type on to `%s` (only structural presence tests on the way)" % (h, canon(call["a"][0])[:30]))


def r09f(ctx, run):
    """code generation materialises the literal's WRITTEN value: the IntLiteral arms of the function compiler and of the constant-data
    builder are evaluated abstractly with a symbolic value n for every numeric type the literal can be given"""
    import c08
    CG = "codegen/src/compiler/functions.rs"
    n = Term("n")

    class LI(c08.I):
        def __init__(self, nt):
            c08.I.__init__(self)
            self.nt = nt
            self.funcs["MemFlags::trusted"] = lambda i, a: Term("trusted")
            self.funcs["MemFlags::new"] = lambda i, a: Term("memflags")

        def eval(self, e, env):
            if e.get("k") == "index" and canon(e["e"]).startswith("self.tys["):
                return self.nt
            if e.get("k") == "field" and canon(e) == "self.builder.func":
                return Term("func")
            return c08.I.eval(self, e, env)

        def default_method(self, recv, m, args, e):
            if m in ("get_final_ty", "into_number_type", "unwrap"):
                return recv
            if isinstance(recv, Obj) and recv.name in ("self", "module") or isinstance(recv, Term):
                if recv is not c08.BUILDER and m not in ("ins",):
                    return Term(m, *args)
            return c08.I.default_method(self, recv, m, args, e)
    sfn = ctx.syn.fn("FunctionCompiler::compile_expr_with_args", CG)
    arms = []
    for m in synq.matches_on(sfn.body):
        for h, p, g, b, arm in synq.match_table(m):
            if h and h.endswith("Expr::IntLiteral"):
                arms.append((p, b, arm))
    if len(arms) != 1:
        raise LookupError("Expr::IntLiteral arm in compile_expr_with_args: %d" % len(arms))
    pat, body, arm = arms[0]
    var = [x["n"] for x in walk(pat) if x.get("k") == "p_ident"][0]

    def strip(t):
        # Some(x) is x; look through the option wrapper only
        return t

    def uses_n_unextended(t):
        """term builds the value from n through value-preserving steps only; returns (ok, why)"""
        if t == n:
            return True, ""
        if isinstance(t, Term):
            if t.op in ("as_i64", "as_u64", "as_u128", "as_i128") and len(t.args) == 1:
                return uses_n_unextended(t.args[0])
            if t.op == "iconst" and len(t.args) == 2:
                return uses_n_unextended(t.args[1])
            if t.op == "uextend" and len(t.args) == 2:
                return uses_n_unextended(t.args[1])
            if t.op == "sextend":
                return False, "the written value (an unsigned 64-bit number) is SIGN-extended: literals >= 2^63 become negative"
            if t.op == "ireduce":
                return False, "the written value is truncated"
            if t.op in ("load",) and len(t.args) >= 3:
                return uses_n_unextended(t.args[2])
            if t.op in ("symbol_value", "declare_data_in_func", "create_global_i128"):
                for a in t.args:
                    okk, why = uses_n_unextended(a)
                    if okk:
                        return True, ""
                return False, "the data object is not built from the literal's value"
        return False, "value is built as %s" % c08.fmt(t)[:80]
    for cl, float_, signed in [("I8", False, True), ("I8", False, False), ("I16", False, True), ("I16", False, False), ("I32", False, True), ("I32", False, False),
                               ("I64", False, True), ("I64", False, False), ("I128", False, True), ("I128", False, False), ("F32", True, True), ("F64", True, True)]:
        nt = c08.numty(cl, float_, signed)
        it = LI(nt)
        env = {"self": Obj("self", builder=c08.BUILDER, tys=Term("tys"), loc=Term("loc"), ptr_ty=Term("ptr_ty"), module=Obj("module")), var: n, "expr": Term("expr")}
        name = ("f" if float_ else ("i" if signed else "u")) + cl[1:]
        try:
            t = it.eval(body, env)
        except (Panic, CannotEstablish) as c:
            run.finding(sfn.qual, "literal:" + name, sfn.file, arm["ln"], "cannot establish how an integer literal of type %s is materialised: %s" % (name, getattr(c, "what", c)))
            continue
        if float_:
            want_op = "f32const" if cl == "F32" else "f64const"
            good = isinstance(t, Term) and t.op == want_op and len(t.args) == 1 and t.args[0] == Term("as_" + ("f32" if cl == "F32" else "f64"), n)
            why = "must be %s(n as %s)" % (want_op, "f32" if cl == "F32" else "f64")
        else:
            good, why = uses_n_unextended(t)
            if good and isinstance(t, Term) and t.op == "iconst":
                good = isinstance(t.args[0], Variant) and t.args[0].last == cl
                why = "iconst of type %s for a literal of type %s" % (c08.fmt(t.args[0]), name)
            if good and cl == "I128" and isinstance(t, Term) and t.op in ("uextend", "load"):
                good = isinstance(t.args[0], Variant) and t.args[0].last == "I128"
                why = "128-bit literal materialised at type %s" % c08.fmt(t.args[0])
        run.check(good, sfn.site(arm["ln"]), "literal of type %s -> %s" % (name, c08.fmt(t)[:70]), sfn.qual, "literal:" + name, sfn.file, arm["ln"],
                  "an integer literal given type %s is materialised as %s: %s" % (name, c08.fmt(t)[:90], why))
    # constant data (globals): the IntLiteral arm of the constant-data builder evaluated for every numeric type the literal can be given (floats
    # included: `h : f64 : 3` gives the literal the type f64) and both byte orders: the bytes must be the written value encoded AT THAT TYPE
    cd = [f for f in ctx.syn.fns_in("codegen/src/compiler/mod.rs") + ctx.syn.fns_in(CG) if f.body is not None and any(
        h and h.endswith("Expr::IntLiteral") and "_bytes" in canon(b) for m in synq.matches_on(f.body) for h, p, g, b, arm in synq.match_table(m))]
    if not cd:
        raise LookupError("constant-data builder arm for Expr::IntLiteral")
    f = cd[0]
    carm = [(p, b, arm2) for m in synq.matches_on(f.body) for h, p, g, b, arm2 in synq.match_table(m) if h and h.endswith("Expr::IntLiteral") and "_bytes" in canon(b)][0]
    cvar = [x["n"] for x in walk(carm[0]) if x.get("k") == "p_ident"][0]

    class CI(LI):
        def __init__(self, nt, endian):
            LI.__init__(self, nt)
            self.endian = endian
            self.funcs["Box::new"] = lambda i, a: a[0]

        def default_method(self, recv, m, args, e):
            if m in ("to_le_bytes", "to_be_bytes", "to_ne_bytes"):
                return Term(m, recv)
            if m == "endianness":
                return Variant("Endianness::" + self.endian)
            if m in ("isa",):
                return Term("isa")
            if m in ("into", "into_boxed_slice", "to_vec"):
                return recv
            return LI.default_method(self, recv, m, args, e)
    for cl, float_, signed in [("I8", False, True), ("I8", False, False), ("I16", False, True), ("I16", False, False), ("I32", False, True), ("I32", False, False),
                               ("I64", False, True), ("I64", False, False), ("I128", False, True), ("I128", False, False), ("F32", True, True), ("F64", True, True)]:
        for endian in ("Little", "Big"):
            nt = c08.numty(cl, float_, signed)
            it = CI(nt, endian)
            env = {"self": Obj("self", tys=Term("tys"), loc=Term("loc"), ptr_ty=Term("ptr_ty"), module=Obj("module")), cvar: n, "expr": Term("expr"), "loc": Term("loc")}
            name = ("f" if float_ else ("i" if signed else "u")) + cl[1:]
            key = "const-literal:%s:%s" % (name, endian)
            try:
                try:
                    t = it.eval(carm[1], env)
                except _Return as r:
                    t = r.v
                if isinstance(t, Variant) and t.last == "Ok":
                    t = t.payload["0"]
            except (Panic, CannotEstablish) as c:
                run.finding(f.qual, key, f.file, carm[2]["ln"], "cannot establish the constant data of an integer literal of type %s (%s-endian): %s" % (name, endian.lower(), getattr(c, "what", c)))
                continue
            w = int(cl[1:])
            want_m = "to_le_bytes" if endian == "Little" else "to_be_bytes"
            casts = ("as_f%d" % w,) if float_ else ("as_u%d" % w, "as_i%d" % w)
            good = isinstance(t, Term) and t.op == want_m and len(t.args) == 1 and isinstance(t.args[0], Term) and t.args[0].op in casts and t.args[0].args[0] == n
            if not good and not float_ and w == 64 and isinstance(t, Term) and t.op == want_m and t.args and t.args[0] == n:
                good = True     # the literal already is a u64
            run.check(good, f.site(carm[2]["ln"]), "constant data of a literal of type %s, %s-endian: %s" % (name, endian.lower(), c08.fmt(t)[:60]), f.qual, key, f.file, carm[2]["ln"],
                      "an integer literal given type %s is written into constant data as %s; it must be (n as %s).%s(): %s" % (
                          name, c08.fmt(t)[:80], casts[0][3:], want_m,
                          "a float-typed global initialised with an integer literal holds the integer's bit pattern, not the number" if float_ else "wrong width or byte order"))


def r09g(ctx, run):
    """weak-type replacement gives a new type only to expressions whose value is MADE at that type (literals, and the forms that pass the type on to
    their parts).  The value of an index or member expression is read out of memory that was already given a type (`arr := .[1, 2, 3]` has elements of
    the default integer type): retyping the node makes the code generator load the element at another width.  replace_weak_tys is evaluated from
    source for leaf expressions of each kind, with a weak integer as the found type and a sized integer as the new type."""
    import c07
    from absint import Obj, Term, Variant, Panic, CannotEstablish, _Return
    V = Variant
    fn = ctx.syn.fn("GlobalInferenceCtx::replace_weak_tys", "hir_ty/src/globals.rs")
    QI = c07.make_ty_interp(ctx)
    weak_u, weak_f, u8, i64, f32 = V("Ty::UInt", {"0": 0}), V("Ty::Float", {"0": 0}), V("Ty::UInt", {"0": 8}), V("Ty::IInt", {"0": 64}), V("Ty::Float", {"0": 32})
    E = Term("expr")

    class Map:
        def __init__(self, d):
            self.d = d

    class RI(QI):
        def eval(self, e, env):
            if e.get("k") == "path" and e["p"] in self.consts:
                return self.consts[e["p"]]
            if e.get("k") == "index":
                base = canon(e["e"])
                if base == "self.bodies":
                    return env["__body"]
                if base == "self.tys":
                    return Obj("area", expr_tys=env["__types"], local_tys=Map({}))
                b = self.eval(e["e"], env)
                if isinstance(b, Map):
                    return b.d[self.eval(e["i"], env)]
            return super().eval(e, env)

        def default_method(self, recv, m, args, e):
            if isinstance(recv, Map):
                if m == "entry":
                    return Obj("entry", map=recv, key=args[0])
                if m == "insert":
                    recv.d[args[0]] = args[1]
                    return None
                if m == "get":
                    return recv.d.get(args[0])
            if isinstance(recv, Obj) and recv.name == "entry" and m == "or_insert":
                return recv.fields["map"].d.setdefault(recv.fields["key"], args[0])
            if isinstance(recv, Obj) and recv.name == "self" and m in ("replace_weak_tys", "reinfer_expr"):
                return True
            if m == "push" and isinstance(recv, list):
                recv.append(args[0])
                return None
            return super().default_method(recv, m, args, e)
    kinds = [
        ("integer literal", V("Expr::IntLiteral", {"0": 5}), weak_u, u8, "made"), ("integer literal at i64", V("Expr::IntLiteral", {"0": 5}), weak_u, i64, "made"),
        ("float literal", V("Expr::FloatLiteral", {"0": Term("f")}), weak_f, f32, "made"),
        ("integer literal at ?u8", V("Expr::IntLiteral", {"0": 5}), weak_u, V("Ty::Optional", {"sub_ty": u8}), "payload"),
        ("integer literal at ??u8", V("Expr::IntLiteral", {"0": 5}), weak_u, V("Ty::Optional", {"sub_ty": V("Ty::Optional", {"sub_ty": u8})}), "payload"),
        ("index expression `arr[i]`", V("Expr::Index", {"source": Term("arr"), "index": Term("i")}), weak_u, u8, "read"),
        ("index expression `arr[i]` at i64", V("Expr::Index", {"source": Term("arr"), "index": Term("i")}), weak_u, i64, "read"),
        ("member expression `s.a`", V("Expr::Member", {"previous": Term("s"), "name": Term("a")}), weak_u, i64, "read"),
    ]
    n = 0
    for desc, body, found, new, how in kinds:
        types = Map({E: found})
        it = RI(macros={"assert": lambda i, e, env: None, "debug": lambda i, e, env: None})
        for w_ in (8, 16, 32, 64, 128):
            it.consts["u%d::MAX" % w_] = 2 ** w_ - 1
            it.consts["i%d::MAX" % w_] = 2 ** (w_ - 1) - 1
        it.consts["usize::MAX"], it.consts["isize::MAX"] = 2 ** 64 - 1, 2 ** 63 - 1
        env = {"self": Obj("self", loc=Term("loc"), diagnostics=[], bodies=Term("bodies"), tys=Term("tys"), interner=Term("interner")), fn.param_names()[1]: E, fn.param_names()[2]: new,
               "__body": body, "__types": types}
        try:
            try:
                res = it.run_fn(fn, env)
            except _Return as r:
                res = r.v
        except (Panic, CannotEstablish) as c:
            run.finding(fn.qual, "retype:" + desc, fn.file, fn.ln, "cannot establish what replace_weak_tys records for a %s: %s" % (desc, getattr(c, "what", c)))
            continue
        n += 1
        rec = types.d.get(E)
        if how == "payload":
            # a literal placed where an optional is expected is the optional's payload: it is recorded at the number type inside all the `?`s
            run.check(rec == u8, fn.site(), "%s: recorded %s" % (desc, c07_name(rec)), fn.qual, "retype:" + desc, fn.file, fn.ln,
                      "an %s is recorded at the type %s: a literal is a number, the code generator asks its type for a number type and panics on anything else "
                      "(`a : ??i32 = 5;`)" % (desc, c07_name(rec) if not (isinstance(rec, Variant) and rec.last == "Optional") else "?" + c07_name(rec.payload["sub_ty"])))
        elif how == "made":
            run.check(rec == new, fn.site(), "%s: %s -> recorded %s" % (desc, found.last, rec.last if isinstance(rec, Variant) else rec), fn.qual, "retype:" + desc, fn.file, fn.ln,
                      "a %s of weak type is not given the requested type (recorded %r)" % (desc, rec))
        else:
            run.check(rec == found and res is not True, fn.site(), "%s keeps the type of the memory it reads" % desc, fn.qual, "retype:" + desc, fn.file, fn.ln,
                      "a %s whose elements have the weak type %s is recorded at the type %s%s: the value is read out of memory that keeps the default type of the weak "
                      "elements, so the code generator loads it at another width (`arr := .[10, 20, 30]; x : u8 = arr[1];` reads 0, an i64 reads past the array)"
                      % (desc, c07_name(found), c07_name(rec), " and reported as replaced" if res is True else ""))
    if n < 5:
        raise LookupError("replace_weak_tys evaluations: %d" % n)


def c07_name(v):
    if isinstance(v, Variant) and v.last == "Pointer":
        return ("^mut " if v.payload.get("mutable") is True else "^" if v.payload.get("mutable") is False else "^<%r> " % (v.payload.get("mutable"),)) + c07_name(v.payload.get("sub_ty"))
    if isinstance(v, Variant):
        w = v.payload.get("0") if v.payload else None
        return {"UInt": "{uint}" if w == 0 else "u%s" % w, "IInt": "{int}" if w == 0 else "i%s" % w, "Float": "{float}" if w == 0 else "f%s" % w}.get(v.last, v.last)
    return repr(v)


def r09h(ctx, run):
    """an unannotated local that was initialised with a small literal and is later ASSIGNED a wider value follows the value: when the usages of a local
    are re-inferred, a plain `dest = value` whose destination is still weak and can be specialised to the value's type gives the destination that type
    (otherwise the local stays a default 32-bit integer and `m := 0; m = 3_000_000_000;` stores a truncated number).  The plain-assignment arm of
    reinfer_usages is evaluated from source for (weak destination, sized value) pairs."""
    import c07
    from absint import Obj, Term, Variant, Panic, CannotEstablish, _Return
    V = Variant
    fn = ctx.syn.fn("GlobalInferenceCtx::reinfer_usages", "hir_ty/src/globals.rs")
    arms = [(b, a) for m in synq.matches_on(fn.body) if "quick_assign_op" in canon(m["e"]) for h, p_, g, b, a in synq.match_table(m) if canon(a["p"]) == "None"]
    if len(arms) != 1:
        raise LookupError("the plain-assignment arm (`None`) of reinfer_usages' match on quick_assign_op: %d" % len(arms))
    body, arm = arms[0]
    QI = c07.make_ty_interp(ctx)
    weak_u, weak_i = V("Ty::UInt", {"0": 0}), V("Ty::IInt", {"0": 0})
    cases = [("{uint}", weak_u, "u64", V("Ty::UInt", {"0": 64})), ("{uint}", weak_u, "i64", V("Ty::IInt", {"0": 64})), ("{int}", weak_i, "i64", V("Ty::IInt", {"0": 64})),
             ("{uint}", weak_u, "u8", V("Ty::UInt", {"0": 8}))]
    for dn, dty, vn, vty in cases:
        calls = []

        class RI(QI):
            def default_method(self, recv, m_, args, e):
                if isinstance(recv, Obj) and recv.name == "self" and m_ == "replace_weak_tys":
                    calls.append((args[0], args[1]))
                    return True
                return super().default_method(recv, m_, args, e)
        it = RI()
        env = {"self": Obj("self"), "assign_body": Obj("assign_body", dest=Term("dest"), value=Term("value")), "dest_ty": dty, "value_ty": vty}
        try:
            try:
                it.eval(body, env)
            except _Return:
                pass
        except (Panic, CannotEstablish) as c:
            run.finding(fn.qual, "assign-follows-value:%s<-%s" % (dn, vn), fn.file, arm["ln"], "cannot establish what a plain assignment of a %s value to a %s local does: %s" % (vn, dn, getattr(c, "what", c)))
            continue
        widened = any(t == Term("dest") and ty == vty for t, ty in calls)
        run.check(widened, fn.site(arm["ln"]), "a %s local assigned a %s value becomes %s" % (dn, vn, vn), fn.qual, "assign-follows-value:%s<-%s" % (dn, vn), fn.file, arm["ln"],
                  "a local that is still %s and is assigned a %s value is not given the type %s (replace_weak_tys calls: %s): it keeps the default 32-bit type and the "
                  "assigned value is stored truncated" % (dn, vn, vn, [(str(t), c07_name(ty)) for t, ty in calls]))
    # the other direction: the destination has meanwhile been given a sized type (`a := 5; a = 300; b : u8 = a;` makes `a` a u8 when `b` is checked) and
    # the assigned value is still weak: the value takes the DESTINATION's type - that is where a literal is tested against the type's range
    for dn, dty, vn, vty in (("u8", V("Ty::UInt", {"0": 8}), "{uint}", weak_u), ("i16", V("Ty::IInt", {"0": 16}), "{int}", weak_i), ("u64", V("Ty::UInt", {"0": 64}), "{uint}", weak_u)):
        calls = []

        class RJ(QI):
            def default_method(self, recv, m_, args, e):
                if isinstance(recv, Obj) and recv.name == "self" and m_ == "replace_weak_tys":
                    calls.append((args[0], args[1]))
                    return True
                return super().default_method(recv, m_, args, e)
        it = RJ()
        env = {"self": Obj("self"), "assign_body": Obj("assign_body", dest=Term("dest"), value=Term("value")), "dest_ty": dty, "value_ty": vty}
        key = "value-follows-dest:%s<-%s" % (dn, vn)
        try:
            try:
                it.eval(body, env)
            except _Return:
                pass
        except (Panic, CannotEstablish) as c:
            run.finding(fn.qual, key, fn.file, arm["ln"], "cannot establish what a plain assignment of a %s value to a %s local does: %s" % (vn, dn, getattr(c, "what", c)))
            continue
        typed = [ty for t, ty in calls if t == Term("value")]
        run.check(typed == [dty], fn.site(arm["ln"]), "a %s value assigned to a local that became %s is given the type %s" % (vn, dn, dn), fn.qual, key, fn.file, arm["ln"],
                  "a %s value assigned to a local that has become %s is given %s, it must be given %s: the literal is never tested against the range of %s and is stored "
                  "truncated (`a := 5; a = 300; b : u8 = a;` stores 44)" % (vn, dn, [c07_name(t) for t in typed] or "no type", dn, dn))


# forms whose type IS (or is built from) the type of their parts: when a literal inside was widened (an unannotated literal above i32::MAX becomes a
# 64-bit integer), the form's recorded type has to follow, or the code generator materialises the value at the stale default width
FOLLOWING_FORMS = {
    "Paren": "`x := (3000000011);`",
    "Comptime": "`x := comptime { 4000000000 };`",
    "ArrayLiteral": "`arr := .[1, 2, 3000000000];`",
    "StructLiteral": "`t := .{ a = 3000000005, b = 1 };`",
    "Block": "`x := { 3000000000 };`",
    "If": "`x := if c { 3000000000 } else { 1 };`",
    "Binary": "`x := 3000000000 + 1;`",
    "Unary": "`x := -3000000000;`",
}


def r09i(ctx, run):
    """re-inference carries a widened literal's type up through every form whose type follows its parts: reinfer_expr's per-kind table (the match on the
    expression kind inside its bottom-up walk) must have an arm that computes a type - not the catch-all `continue` - for each such form"""
    fn = ctx.syn.fn("GlobalInferenceCtx::reinfer_expr", "hir_ty/src/globals.rs")
    tables = []
    for m in synq.matches_on(fn.body):
        heads = {}
        for h, p_, g, b, a in synq.match_table(m):
            if h and h.startswith("Expr::"):
                heads.setdefault(synq.last_seg(h), []).append((b, a))
        if "IntLiteral" in heads and len(heads) >= 6:
            tables.append((m, heads))
    if len(tables) != 1:
        raise LookupError("the per-kind type table of reinfer_expr: %d candidates" % len(tables))
    m, heads = tables[0]
    for kind, example in FOLLOWING_FORMS.items():
        arms = heads.get(kind, [])
        computes = [a for b, a in arms if canon(synq.strip_block(b)) not in ("continue", "continue;")]
        run.check(bool(computes), fn.site(computes[0]["ln"] if computes else m["ln"]), "Expr::%s: its type follows its parts" % kind, fn.qual, "follows:" + kind, fn.file, m["ln"],
                  "reinfer_expr has no arm for Expr::%s (it falls to `continue`): when a literal inside is widened to a 64-bit integer the %s keeps its stale default type and "
                  "the written value is truncated (%s)" % (kind, kind, example))


def r09l(ctx, run):
    """the final re-inference pass decides a still-weak literal by its value alone: the IntLiteral arm of reinfer_expr's per-kind table is evaluated for
    both weak types and values around 2^31 / 2^32 / 2^63, under every answer to any question it asks about other state (an unknown condition is explored
    both ways).  Beyond what the code generator's type for weak ints can hold (R09.d: i32) every outcome must give the literal a 64-bit type; at or
    below it the literal is left alone."""
    from absint import Interp, Obj, Term, Variant, Panic, CannotEstablish
    fn = ctx.syn.fn("GlobalInferenceCtx::reinfer_expr", "hir_ty/src/globals.rs")
    arms = []
    for m in synq.matches_on(fn.body):
        tab = synq.match_table(m)
        heads = {synq.last_seg(h) for h, p_, g, b, a in tab if h and h.startswith("Expr::")}
        if "IntLiteral" in heads and len(heads) >= 6:
            arms += [(p_, b, a) for h, p_, g, b, a in tab if h and synq.last_seg(h) == "IntLiteral"]
    if len(arms) != 1:
        raise LookupError("the IntLiteral arm of reinfer_expr's per-kind table: %d candidates" % len(arms))
    pat, body, arm = arms[0]
    binder = [x for x in walk(pat) if x.get("k") == "p_ident"]
    if len(binder) != 1:
        raise LookupError("the IntLiteral arm binds %d names" % len(binder))
    num_name = binder[0]["n"]

    class Skip(Exception):
        pass

    class LI(Interp):
        def __init__(self, decisions):
            super().__init__(consts={"i32::MAX": 2**31 - 1, "u32::MAX": 2**32 - 1, "i64::MAX": 2**63 - 1, "u64::MAX": 2**64 - 1, "u8::MAX": 255})
            self.decisions, self.asked = list(decisions), []

        def truth(self, v, what):
            if isinstance(v, bool):
                return v
            self.asked.append(what)
            if len(self.asked) <= len(self.decisions):
                return self.decisions[len(self.asked) - 1]
            raise NeedDecision()

        def eval(self, e, env):
            k = e.get("k")
            if k == "continue":
                raise Skip()
            if k == "cast":
                return self.eval(e["e"], env)
            if k in ("ref",) or (k == "un" and e.get("op") in ("*", "&")):
                return self.eval(e["e"], env)
            if k == "path" and e["p"] == "self":
                return Term("self")
            if k == "field":
                b = self.eval(e["e"], env)
                if isinstance(b, Term):
                    return Term("state", b, e["m"])
            return super().eval(e, env)

        def default_method(self, recv, m, args, e):
            if m == "into" and isinstance(recv, Variant):
                return recv
            if isinstance(recv, Term):
                return Term("state", recv, m)
            return super().default_method(recv, m, args, e)

    class NeedDecision(Exception):
        pass

    def outcomes(prev, num):
        out, todo = [], [[]]
        while todo:
            d = todo.pop()
            it = LI(d)
            try:
                r = it.eval(body, {num_name: num, "previous_ty": prev, "expr": Term("expr")})
                out.append((list(zip(it.asked, d)), r))
            except Skip:
                out.append((list(zip(it.asked, d)), "unchanged"))
            except NeedDecision:
                if len(d) >= 6:
                    raise CannotEstablish("more than 6 undecided conditions")
                todo += [d + [True], d + [False]]
        return out
    weak_max = 2**31 - 1     # R09.d establishes that the code generator gives weak ints an i32
    for prev, fam in ((Variant("Ty::IInt", {"0": 0}), "IInt"), (Variant("Ty::UInt", {"0": 0}), "UInt")):
        for num in (0, 2**31 - 1, 2**31, 3000000000, 2**32 - 1, 2**32, 2**63, 2**64 - 1):
            key = "weak-literal:%s:%d" % ("{int}" if fam == "IInt" else "{uint}", num)
            try:
                outs = outcomes(prev, num)
            except (Panic, CannotEstablish) as c:
                run.finding(fn.qual, key, fn.file, arm["ln"], "cannot establish what the final pass does with the literal %d of type %s: %s" % (num, key.split(":")[1], getattr(c, "what", c)))
                continue
            bad = []
            for asked, r in outs:
                if num > weak_max:
                    good = isinstance(r, Variant) and r.last == fam and r.payload.get("0") in (64, 128)
                else:
                    good = r == "unchanged"
                if not good:
                    bad.append("%s -> %s" % (" and ".join("%s is %s" % (w, str(a).lower()) for w, a in asked) or "always", r))
            run.check(not bad, fn.site(arm["ln"]), "%s literal %d: %s under %d outcome(s)" % (key.split(":")[1], num, "widened to 64 bits" if num > weak_max else "left alone", len(outs)),
                      fn.qual, key, fn.file, arm["ln"],
                      "a literal %d that is still %s in the final pass %s, but [%s]: the code generator gives a weak integer an i32, so the written value would not be kept"
                      % (num, key.split(":")[1], "must get a 64-bit type of its family" if num > weak_max else "fits an i32 and must be left alone", "; ".join(bad)))


def r09m(ctx, run):
    """weak-type replacement through a dereference: when `p^` is given a new type T, the pointer expression `p` is given `^T` / `^mut T` with the
    mutability of ITS OWN type.  The Deref arm of replace_weak_tys is evaluated from source on (pointer type, pointee type) samples; the type handed to
    the recursive call for the pointer must be Pointer { mutable: <that of p's type>, sub_ty: T } - anything else leaves `p` with a type its own local
    does not have (re-inference then finds `^i32` where it computes `^mut i32` and panics), or lets a write through a `^T` typed expression."""
    import c07
    from absint import Obj, Term, Variant, Panic, CannotEstablish, _Return
    V = Variant
    fn = ctx.syn.fn("GlobalInferenceCtx::replace_weak_tys", "hir_ty/src/globals.rs")
    arms = [(p_, b, a) for m in synq.matches_on(fn.body) if canon(m["e"]) == "expr_body" for h, p_, g, b, a in synq.match_table(m) if h and synq.last_seg(h) == "Deref"]
    if len(arms) != 1:
        raise LookupError("the Deref arm of replace_weak_tys: %d" % len(arms))
    pat, body, arm = arms[0]
    binder = [x["n"] for x in walk(pat) if x.get("k") == "p_ident"]
    if len(binder) != 1:
        raise LookupError("binders of the Deref arm: %s" % binder)
    QI = c07.make_ty_interp(ctx)
    weak, i32 = V("Ty::UInt", {"0": 0}), V("Ty::IInt", {"0": 32})
    ptr = lambda m, t: V("Ty::Pointer", {"mutable": m, "sub_ty": t})
    E, P = Term("e_deref"), Term("e_pointer")
    cases = []
    for pm in (True, False):
        cases.append(("p : %s{uint}, `p^` becomes i32" % ("^mut " if pm else "^"), ptr(pm, weak), weak, i32, pm))
        for im in (True, False):
            inner_old, inner_new = ptr(im, weak), ptr(im, i32)
            cases.append(("pp : %s%s{uint}, `pp^` becomes %si32" % ("^mut " if pm else "^", "^mut " if im else "^", "^mut " if im else "^"), ptr(pm, inner_old), inner_old, inner_new, pm))
    for desc, pty, ety, new_ty, want_mut in cases:
        tys = {E: ety, P: pty}
        calls = []

        class RI(QI):
            def eval(self, e, env):
                if e.get("k") == "index" and canon(e["e"]) in ("self.tys[self.loc].expr_tys", "self.tys[self.loc]"):
                    return tys[self.eval(e["i"], env)]
                return super().eval(e, env)

            def default_method(self, recv, m_, args, e):
                if isinstance(recv, Obj) and recv.name == "self" and m_ == "replace_weak_tys":
                    calls.append((args[0], args[1]))
                    return True
                none = recv is None or (isinstance(recv, Variant) and recv.last == "None")
                if m_ == "unwrap_or_default":
                    return False if none else recv
                if m_ == "map" and len(args) == 1 and (none or isinstance(recv, tuple)):
                    return None if none else self.call_closure(args[0], [recv])
                return super().default_method(recv, m_, args, e)
        it = RI()
        env = {"self": Obj("self"), "expr": E, binder[0]: P, "new_ty": new_ty, "found_ty": ety}
        key = "deref-keeps-mutability:" + desc
        try:
            try:
                it.eval(body, env)
            except _Return:
                pass
        except (Panic, CannotEstablish) as c:
            run.finding(fn.qual, key, fn.file, arm["ln"], "cannot establish what replace_weak_tys hands the pointer of a dereference (%s): %s" % (desc, getattr(c, "what", c)))
            continue
        want = ptr(want_mut, new_ty)
        got = [ty for t, ty in calls if t == P]
        run.check(got == [want], fn.site(arm["ln"]), "%s: the pointer expression is given %s" % (desc, c07_name(want)), fn.qual, key, fn.file, arm["ln"],
                  "%s: the pointer expression is given %s, it must be given %s - the mutability of a pointer expression's type is its own, not the pointee's: its local keeps "
                  "the old mutability, so re-inference meets a type it cannot reconcile (compiler panic on a well-typed program) or the expression's type lies about what may "
                  "be written through it" % (desc, [c07_name(g) for g in got] or "nothing", c07_name(want)))


def r09n(ctx, run):
    """a decimal literal with an exponent denotes mantissa x 10^exponent and is accepted exactly when that value fits 64 bits: the Dec arm of
    lower_int_literal is evaluated from source on sample spellings (separators, `e`/`E`, zero mantissa with a huge exponent, the values around 2^64)."""
    from symint import SymInterp, Env
    from absint import Obj, Term, Variant, Panic, CannotEstablish, _Return
    V = Variant
    fn = ctx.syn.fn("Ctx::lower_int_literal", "hir/src/body.rs")
    arms = [(p_, b, a) for m in synq.matches_on(fn.body) for h, p_, g, b, a in synq.match_table(m) if h and h.endswith("IntValue::Dec")]
    if len(arms) != 1:
        raise LookupError("the Dec arm of lower_int_literal: %d" % len(arms))
    pat, body, arm = arms[0]
    binder = next((x["n"] for x in walk(pat) if x.get("k") == "p_ident"), None)
    U64 = 2**64 - 1

    class LI(SymInterp):
        def eval(self, e, env):
            if e.get("k") == "lit" and e.get("t") == "char":
                lit = e["v"][1:-1] if e["v"].startswith("'") else e["v"]
                return lit
            if e.get("k") == "struct" and e["p"].endswith("LoweringDiagnostic"):
                return Obj("LoweringDiagnostic", kind=next((canon(f_[1]) for f_ in e["f"] if f_[0] == "kind"), ""))
            if e.get("k") == "field" and canon(e) == "self.diagnostics":
                return Term("diagnostics")
            if e.get("k") in ("ref",) or (e.get("k") == "un" and e.get("op") in ("*", "&")):
                return self.eval(e["e"], env)
            return super().eval(e, env)

        def default_method(self, recv, m, args, e):
            if isinstance(recv, Obj) and recv.name == "dec" and m == "text":
                return recv.fields["text"]
            if isinstance(recv, Term) and recv.op == "diagnostics" and m == "push":
                self.reported.append(args[0].fields.get("kind", "") if isinstance(args[0], Obj) else "")
                return None
            if isinstance(recv, str):
                if m == "replace":
                    return recv.replace(args[0], args[1])
                if m == "split":
                    seps = args[0] if isinstance(args[0], (list, tuple)) else [args[0]]
                    parts, cur = [], ""
                    for ch in recv:
                        if ch in seps:
                            parts.append(cur)
                            cur = ""
                        else:
                            cur += ch
                    return parts + [cur]
                if m == "parse":
                    ok = recv.isdigit() and recv.isascii()
                    # the mantissa is parsed as u64 (explicit turbofish), the exponent as the u32 checked_pow takes
                    width = 64 if ("u64" in canon(e) or "u64" in str(e.get("g", "")) or canon(e["r"]) != "e") else 32
                    if ok and int(recv) < 2 ** width:
                        return V("Ok", {"0": int(recv)})
                    return V("Err", {"0": Term("parse error")})
            if isinstance(recv, list) and m == "next":
                return recv.pop(0) if recv else None
            if isinstance(recv, Variant) and recv.last in ("Ok", "Err") and m == "ok":
                return recv.payload["0"] if recv.last == "Ok" else None
            if m == "unwrap" and recv is not None:
                return recv
            if m in ("and_then", "map") and len(args) == 1 and not isinstance(recv, list):
                return None if recv is None else self.call_closure(args[0], [recv])
            if isinstance(recv, int) and not isinstance(recv, bool):
                if m == "checked_pow":
                    r = recv ** args[0] if args[0] < 200 else U64 + 1
                    return r if r <= U64 else None
                if m == "checked_mul":
                    r = recv * args[0]
                    return r if r <= U64 else None
                if m in ("pow", "wrapping_pow", "wrapping_mul", "saturating_mul", "saturating_pow"):
                    raise Panic("unchecked arithmetic `%s` on a literal's value" % m)
            if m in ("range",):
                return Term("range")
            return super().default_method(recv, m, args, e)
    samples = [("7", 7), ("1_000", 1000), ("5e0", 5), ("1_000e3", 1000000), ("12E2", 1200), ("0e20", 0), ("0E99", 0), ("0e0", 0), ("1e19", 10**19), ("2e19", None),
               ("18446744073709551615", U64), ("18446744073709551616", None), ("1e20", None), ("18_446_744_073_709_551_615e0", U64), ("3e4294967296", None)]
    for text, want in samples:
        it = LI(funcs={"Some": lambda i, a: a[0], "Expr::IntLiteral": lambda i, a: ("int", a[0])})
        it.reported = []
        it.consts["Expr::Missing"] = "missing"
        env = Env(None, {"self": Obj("self", tree=Term("tree")), binder: Obj("dec", text=text), "int_literal": Term("lit")})
        key = "spelling:" + text
        try:
            try:
                got = it.eval(body, env)
            except _Return as r:
                got = r.v
        except (Panic, CannotEstablish) as c:
            run.finding(fn.qual, key, fn.file, arm["ln"], "cannot establish what the literal `%s` denotes: %s" % (text, getattr(c, "what", c)))
            continue
        if want is None:
            good = got == "missing" and any("OutOfRange" in r_ for r_ in it.reported)
            what = "rejected as out of range"
        else:
            good = got == ("int", want) and not it.reported
            what = "denotes %d" % want
        run.check(good, fn.site(arm["ln"]), "`%s` %s" % (text, what), fn.qual, key, fn.file, arm["ln"],
                  "the literal `%s` must be %s (mantissa x 10^exponent, accepted exactly when it fits 64 bits); lowering gives %s%s" % (
                      text, what if want is None else "accepted and denote %d" % want, got, (" and reports " + ", ".join(it.reported)) if it.reported else ""))


def r09k(ctx, run):
    """inference of a body is resumable: infer_expr returns early when it meets a global that is not inferred yet and a NEW GlobalInferenceCtx runs it
    again; statements finished in an earlier run are skipped through the set `inferred_stmts`, which outlives the runs.  A table of the context that is
    filled while such a statement is processed must outlive the runs as well (or be filled on the skip path too): otherwise what was recorded for the
    statements before the interruption is gone when the body's final pass reads the table - `local_usages` drives the re-inference that widens an
    unannotated local to the literal it is later assigned; `expected_tys` holds the annotation a block's breaks are combined under."""
    G = "hir_ty/src/globals.rs"
    _, st = ctx.syn.item("struct_def", "GlobalInferenceCtx", G)
    fields = {}
    for f in st.get("fields", []):
        fields[f["n"]] = canon(f["ty"]) if isinstance(f.get("ty"), dict) else str(f.get("ty"))
    if "inferred_stmts" not in fields:
        raise LookupError("GlobalInferenceCtx.inferred_stmts")
    persistent = {n for n, t in fields.items() if t.lstrip().startswith("&")}
    if "inferred_stmts" not in persistent:
        raise LookupError("inferred_stmts is expected to be borrowed from the project context")
    owned = {n for n, t in fields.items() if n not in persistent and re.search(r"(Map|Set|Vec)\b", t)}
    WRITES = ("insert", "push", "extend", "entry", "get_mut", "append", "push_back")
    methods = {f.qual.rsplit("::", 1)[-1]: f for f in ctx.syn.fns_in(G) if f.body is not None and not f.in_test and f.impl_ty and f.impl_ty.startswith("GlobalInferenceCtx")}

    def direct_writes(node):
        out = set()
        for x in walk(node):
            if x.get("k") == "mcall" and x["m"] in WRITES and x["r"].get("k") == "field" and canon(x["r"]["e"]) in ("self", "ctx") and x["r"]["m"] in owned:
                out.add(x["r"]["m"])
            if x.get("k") == "assign" and x["l"].get("k") == "field" and canon(x["l"]["e"]) in ("self", "ctx") and x["l"]["m"] in owned:
                out.add(x["l"]["m"])
        return out

    def self_calls(node):
        return {x["m"] for x in walk(node) if x.get("k") == "mcall" and canon(x["r"]) in ("self", "ctx") and x["m"] in methods}

    ie = methods.get("infer_expr")
    if ie is None:
        raise LookupError("GlobalInferenceCtx::infer_expr")
    # the statement arms and their skip guards
    guarded = []  # (arm head, skip block, rest of the arm)
    for m in synq.matches_on(ie.body):
        for h, p_, g, b, a in synq.match_table(m):
            if h and h.rsplit("::", 1)[-1] in ("PreStmt", "PostStmt") and b.get("k") == "block":
                for i, stt in enumerate(b["s"]):
                    e_ = stt.get("e") if stt.get("k") == "expr" else None
                    if e_ is not None and e_.get("k") == "if" and "inferred_stmts.contains" in canon(e_["c"]) and any(x.get("k") == "continue" for x in walk(e_["t"])):
                        guarded.append((h.rsplit("::", 1)[-1], e_["t"], b["s"][i + 1:], e_["ln"]))
    if len(guarded) < 2:
        raise LookupError("statement arms of infer_expr that skip statements already in inferred_stmts: %d" % len(guarded))
    # methods called ONLY from regions behind a skip guard record on behalf of those regions
    inside = set()
    for _, _, rest, _ in guarded:
        inside |= self_calls(rest)
    outside_calls = set()
    rest_ids = {id(x) for _, _, rest, _ in guarded for x in walk(rest)}
    for f in methods.values():
        for x in walk(f.body):
            if x.get("k") == "mcall" and canon(x["r"]) in ("self", "ctx") and x["m"] in methods and id(x) not in rest_ids:
                outside_calls.add(x["m"])
    only_guarded = {m_ for m_ in inside if m_ not in outside_calls}
    n = 0
    for head, skip, rest, ln in guarded:
        w_rest = direct_writes(rest)
        for m_ in self_calls(rest) & only_guarded:
            w_rest |= direct_writes(methods[m_].body)
        w_skip = direct_writes(skip)
        for m_ in self_calls(skip):
            w_skip |= direct_writes(methods[m_].body)
        for fld in sorted(w_rest):
            n += 1
            readers = sorted({f.qual.rsplit("::", 1)[-1] for f in methods.values() if any(x.get("k") == "field" and x["m"] == fld and canon(x["e"]) in ("self", "ctx") for x in walk(f.body))} - {"infer_expr"})
            run.check(fld in w_skip, ie.site(ln), "%s arm: %s is recorded for skipped statements as well" % (head, fld), ie.qual, "survives-interruption:%s:%s" % (head, fld), ie.file, ln,
                      "GlobalInferenceCtx.%s (%s) lives as long as ONE run of infer_expr, but the %s arm fills it only for statements that are not in `inferred_stmts` yet, and that set "
                      "outlives the runs: after an interruption (the body meets a global that is not inferred yet) the entries of all statements finished before it are gone when %s read "
                      "the table" % (fld, fields[fld][:60], head, ", ".join(readers[:4]) or "its readers"))
    for fld in sorted(owned):
        run.ok(ie.site(), "per-run table %s: %s" % (fld, "filled behind a skip guard" if any(fld in direct_writes(r) for _, _, r, _ in guarded) else "not filled by a statement arm"))
    if not owned and n == 0:
        # every table is borrowed from the project context: nothing can be lost
        run.ok(ie.site(), "no table of GlobalInferenceCtx is owned by a single run")


def rules(ctx):
    return [
        Rule("R09.a", "escape tables of string and char literals equal the reference table and each other; default arm rejects", 27, r09a),
        Rule("R09.b", "integer literal lowering uses only checked parsing/arithmetic; every failure reports OutOfRangeIntLiteral", 12, r09b),
        Rule("R09.c", "get_max_int_size(T) = min(max(T), u64::MAX) for every width; users reject exactly values > max, tested against the type the literal is given", 17, r09c),
        Rule("R09.e", "weak-type replacement reaches the literals inside every transparent expression form unconditionally", 18, r09e),
        Rule("R09.g", "weak-type replacement retypes only expressions whose value is made at that type; index/member expressions keep the type of the memory they read", 5, r09g),
        Rule("R09.h", "a weak local that is assigned a sized value takes the value's type, a weak value assigned to a local that became sized takes the local's (plain-assignment arm of reinfer_usages evaluated)", 7, r09h),
        Rule("R09.i", "re-inference carries a widened literal's type up through every form whose type follows its parts", 8, r09i),
        Rule("R09.l", "the final pass widens a still-weak literal by its value alone: IntLiteral arm of reinfer_expr evaluated under every answer to its questions about other state", 16, r09l),
        Rule("R09.m", "weak-type replacement through `p^` gives the pointer expression a pointer type with the mutability of its own type (Deref arm of replace_weak_tys evaluated)", 6, r09m),
        Rule("R09.n", "a decimal literal denotes mantissa x 10^exponent and is accepted iff that fits 64 bits (Dec arm of lower_int_literal evaluated on sample spellings)", 15, r09n),
        Rule("R09.k", "tables filled while a statement is inferred survive the interruptions of the body's inference (or are filled for skipped statements too)", 1, r09k),
        Rule("R09.f", "code generation materialises the written value: iconst/fNNconst/data object built from n without sign extension or truncation; constant data at the type's width", 20, r09f),
        Rule("R09.d", "weak literal widening thresholds do not exceed the maximum of the type codegen gives weak ints", 6, r09d),
    ]

"""C27 — distinct entities get distinct symbols (DESIGN §3 C27)."""
from core import Rule
import synq
from synq import canon, walk
import facts as FA

PROPERTY = "C27"
TITLE = "Distinct compiled entities get distinct symbol names"
NEEDS = ("syn", "facts")
TECHNIQUE = "static analysis: format abstract interpretation of the mangler (unique decodability), injectivity lint on path normalisation, interprocedural name-origin dataflow on MIR"
EXPLANATION = (
    "(a) every Mangle impl forwards all identifying fields of its location (file, name / lambda index, comptime-args "
    "key, comptime index, internal-data name) — extracted from the impl bodies; (b) the emitted format of "
    "create_mangled_for_file/add_part is abstracted to Num/Lit/Text sequences per branch and checked for unique "
    "decodability against the character class of each part kind (derived from the MangledPart construction sites); "
    "(c) every transformation applied to a path component in FileName::get_components must be injective and the "
    "`src` skip must drop the component it tested; (d) engine A interprocedural dataflow: the name operand of every "
    "Module::declare_function/declare_data call originates from to_mangled_name, mangle_internal, a literal, or an "
    "extern's own name, and the first-character classes of those families are pairwise disjoint.")
NOT_DECIDED = [
    "uniqueness of comptime-args keys (`raw_start`) per instantiation (allocation discipline in hir_ty)",
    "SubDir::is_sub_dir_of / path cleaning on all paths (value-level, shared with C28)",
]
ASSUMPTIONS = ["global names are identifiers ([A-Za-z_][A-Za-z0-9_]*, tokenizer.txt) and arena indices print as decimal digits"]


def r27a(ctx, run):
    syn = ctx.syn
    F = "codegen/src/mangle.rs"
    # (which components each helper and each Mangle impl forwards is decided by R27.e, which evaluates them; the tables of source substrings that used
    # to stand here flagged renames and missed a branch that dropped `final_parts` while another kept it - seed C27-4)
    # create_mangled_for_file: TOC per part in part order, then each part in the same order, then 'E'
    fn = syn.fn("create_mangled_for_file", F)
    seq = []
    for s in fn.body["s"]:
        cs = canon(s)
        if "mangled.push(MangledPartKind::Module.to_code())" in cs:
            seq.append("toc:M")
        elif s["k"] == "expr" and s["e"]["k"] == "for" and "mangled.push(MangledPartKind::FileOrFolder.to_code())" in cs:
            seq.append("toc:F*")
        elif s["k"] == "expr" and s["e"]["k"] == "for" and "mangled.push(final_part.kind.to_code())" in cs:
            seq.append("toc:final*")
        elif "add_part(" in cs and "MangledPartKind::Module" in cs:
            seq.append("part:M")
        elif s["k"] == "expr" and s["e"]["k"] == "for" and "add_part(" in cs and "MangledPartKind::FileOrFolder" in cs:
            seq.append("part:F*")
        elif s["k"] == "expr" and s["e"]["k"] == "for" and "add_part(&mut mangled, final_part)" in cs:
            seq.append("part:final*")
        elif cs.startswith("mangled.push('E')"):
            seq.append("end")
    want_seq = ["toc:M", "toc:F*", "toc:final*", "part:M", "part:F*", "part:final*", "end"]
    run.check(seq == want_seq, fn.site(), "symbol = TOC(M? F* final*) then parts in the same order then 'E'", "create_mangled_for_file", "layout", fn.file, fn.ln,
              "create_mangled_for_file must emit one table-of-contents letter per part, then the parts in the same order; found %s" % seq)
    # kind codes pairwise distinct
    tc = syn.fn("MangledPartKind::to_code", F)
    m = synq.matches_on(tc.body)[0]
    codes = {}
    for h, p, g, b, arm in synq.match_table(m):
        codes[synq.last_seg(h)] = canon(synq.strip_block(b))
    run.check(len(set(codes.values())) == len(codes) and all(len(v) == 3 and v[1].isupper() for v in codes.values()), tc.site(),
              "part-kind codes are distinct upper-case letters: %s" % codes, "MangledPartKind::to_code", "codes", tc.file, tc.ln,
              "part-kind codes must be pairwise distinct upper-case letters: %s" % codes)


# ---- R27.b: format abstraction ------------------------------------------------------------------
def abstract_pushes(block):
    out = []
    for s in block["s"]:
        e = s.get("e") if s["k"] == "expr" else None
        if not e or e["k"] != "mcall" or canon(e["r"]) != "mangled":
            if s["k"] == "expr" and e and e["k"] == "macro":
                continue
            out.append(("?", canon(s)[:60]))
            continue
        a = canon(e["a"][0]) if e["a"] else ""
        if e["m"] == "push_str" and a.endswith(".to_string()") and "len()" in a:
            inner = a[1:-len(".to_string()")] if a.startswith("&") else a[:-len(".to_string()")]
            out.append(("Num", inner))
        elif e["m"] == "push" and a == "part.kind.to_code().to_ascii_lowercase()":
            out.append(("LowerCode", ""))
        elif e["m"] == "push" and a == "part.kind.to_code()":
            out.append(("Code", ""))
        elif e["m"] == "push_str" and a == "&part.text":
            out.append(("Text", ""))
        elif e["m"] == "push" and e["a"][0]["k"] == "lit":
            out.append(("Lit", e["a"][0]["v"]))
        else:
            out.append(("?", a[:60]))
    return out


def part_text_classes(ctx):
    """kind -> set of text classes, from MangledPart { kind, text } construction sites"""
    cls = {}
    for f in ctx.syn.fns_in("codegen/src/mangle.rs"):
        if f.body is None:
            continue
        for n in walk(f.body):
            if n.get("k") == "struct" and n["p"] == "MangledPart":
                fl = {x[0]: x[1] for x in n["f"]}
                kind = synq.last_seg(canon(fl["kind"]))
                t = canon(fl["text"])
                if t.endswith(".to_string().into()") and ("into_raw()" in t or "raw_start()" in t):
                    c = "digits"
                elif t == "interner.lookup(loc.name().0).into()":
                    c = "ident"
                elif t in ("mod_name", "file_or_folder"):
                    c = "path-component"
                elif t == "self.1.into()":
                    c = "internal"
                else:
                    c = "unknown:" + t
                cls.setdefault(kind, set()).add((c, f.qual, n["ln"]))
    return cls


TEXT_CLASSES = ("empty", "all-digits", "digit-start", "other")   # partition of the possible part texts


def eval_text_pred(c, cls):
    """value of a predicate on `part.text` for every text of class `cls` (True/False) or None if not uniform/unknown"""
    k = c.get("k")
    if k == "paren":
        return eval_text_pred(c["e"], cls)
    if k == "un" and c["op"] == "!":
        v = eval_text_pred(c["e"], cls)
        return None if v is None else not v
    if k == "bin" and c["op"] in ("&&", "||"):
        l, r = eval_text_pred(c["l"], cls), eval_text_pred(c["r"], cls)
        if c["op"] == "&&":
            if l is False or r is False:
                return False
            return True if (l is True and r is True) else None
        if l is True or r is True:
            return True
        return False if (l is False and r is False) else None
    if k == "mcall":
        recv = canon(c["r"])
        digit_closure = bool(c["a"]) and c["a"][0].get("k") == "closure" and "is_ascii_digit" in canon(c["a"][0])
        if c["m"] == "is_empty" and recv == "part.text":
            return cls == "empty"
        if c["m"] == "starts_with" and recv == "part.text" and digit_closure:
            return cls in ("all-digits", "digit-start")
        if c["m"] == "all" and recv in ("part.text.bytes()", "part.text.chars()") and digit_closure:
            return cls in ("empty", "all-digits")
        if c["m"] == "any" and recv in ("part.text.bytes()", "part.text.chars()") and digit_closure:
            return None if cls in ("digit-start", "other") else cls == "all-digits"
    return None


def branches_of(stmt_if):
    """[(cond|None, block)] of an if / else-if / else chain"""
    out, e = [], stmt_if
    while e is not None and e.get("k") == "if":
        out.append((e["c"], e["t"]))
        e = e.get("e")
    if e is not None:
        out.append((None, e if e.get("k") == "block" else {"k": "block", "s": [{"k": "expr", "e": e}]}))
    return out


def r27b(ctx, run):
    fn = ctx.syn.fn("add_part", "codegen/src/mangle.rs")
    top = [s for s in fn.body["s"] if s["k"] == "expr" and s["e"]["k"] == "if"]
    if len(top) != 1:
        raise LookupError("add_part is not a single if/else chain")
    iff = top[0]["e"]
    chain = branches_of(iff)
    emitted = {}
    for cls in TEXT_CLASSES:
        taken = None
        for cond, blk in chain:
            v = True if cond is None else eval_text_pred(cond, cls)
            if v is None:
                run.finding("add_part", "escape-condition", fn.file, iff["ln"], "cannot establish decodability: the condition `%s` is not a predicate on the "
                            "text's digit structure that the format analysis understands (for %s texts)" % (canon(cond)[:80], cls))
                return
            if v:
                taken = blk
                break
        emitted[cls] = abstract_pushes(taken) if taken is not None else []
    run.ok(fn.site(iff["ln"]), "add_part emits per text class: %s" % emitted)
    # every class: self-delimiting form Num(len + k) . k prefix chars . Text, first payload character not a digit
    esc_prefix = None
    for cls in TEXT_CLASSES:
        a = emitted[cls]
        if cls == "empty":
            continue   # no part kind has an empty text (names, path components and ids are non-empty)
        prefix = a[1:-1]
        k = len(prefix)
        want_num = "part.text.len()" if k == 0 else "(part.text.len() + %d)" % k
        shaped = len(a) >= 2 and a[0] == ("Num", want_num) and a[-1] == ("Text", "") and all(x[0] in ("LowerCode", "Lit") for x in prefix)
        if not shaped:
            run.finding("add_part", "not-length-prefixed:%s" % cls, fn.file, iff["ln"],
                        "a part whose text is %s is emitted as %s: not `length . payload`, so where it ends depends on the next character — the parts that follow "
                        "begin with the digits of their own length, and two different part lists run together into one symbol" % (cls, a))
            continue
        first_digit = (k == 0 and cls in ("all-digits", "digit-start")) or (k > 0 and prefix[0][0] == "Lit" and prefix[0][1].strip("'\"")[:1].isdigit())
        if first_digit:
            run.finding("add_part", "payload-starts-with-digit:%s" % cls, fn.file, iff["ln"],
                        "a %s text is emitted as length immediately followed by a digit of the payload: the length cannot be read back" % cls)
            continue
        run.ok(fn.site(iff["ln"]), "%s text -> %s (length-prefixed, payload starts with a non-digit)" % (cls, a))
        if k > 0:
            esc_prefix = prefix
    plain = emitted["other"]
    run.check(plain == [("Num", "part.text.len()"), ("Text", "")], fn.site(iff["ln"]), "plain branch = Num(len) Text", "add_part", "plain", fn.file, iff["ln"],
              "a text that does not start with a digit must be emitted as its length followed by the text; found %s" % plain)
    if esc_prefix is None:
        return
    # decodability per kind: a reader sees Num n then n chars P.  P = prefix+t (t digit-start) or P = t (t not digit-start).
    # ambiguous iff the class has both a digit-start member and a member `prefix + digit-start member`.
    classes = part_text_classes(ctx)
    starts_digit = {"digits": True, "ident": False, "path-component": True, "internal": False}
    starts_lower_then_digit = {"digits": False, "ident": True, "path-component": True, "internal": True}
    for kind, cs in sorted(classes.items()):
        for c, where, ln in sorted(cs):
            site = "crates/codegen/src/mangle.rs:%d" % ln
            if c.startswith("unknown"):
                run.finding("add_part", "class:%s" % kind, "crates/codegen/src/mangle.rs", ln, "cannot classify the text of a %s part (%s): decodability not established" % (kind, c))
                continue
            amb = starts_digit[c] and starts_lower_then_digit[c]
            if c == "internal":
                amb = False  # compiler-chosen constant names; checked by R27.d to be identifier-like
            if amb:
                run.finding("add_part", "collision:%s" % kind, "crates/codegen/src/mangle.rs", ln,
                            "%s parts are %s text: a text starting with a digit (\"1\") is emitted as len+1 · lower(code) · text (\"2%s1\"), "
                            "which equals the plain encoding of the text lower(code)+text (\"%s1\" -> \"2%s1\"): two different %s parts, one symbol"
                            % (kind, c, kind[0].lower(), kind[0].lower(), kind[0].lower(), kind))
            else:
                run.ok(site, "%s part (%s, built in %s): escape cannot collide" % (kind, c, where))
    for kind in ("Module", "FileOrFolder", "Name", "GenericID", "Lambda", "Comptime", "InternalData"):
        if kind not in classes:
            run.finding("add_part", "no-site:%s" % kind, fn.file, fn.ln, "no construction site found for part kind %s" % kind)


# ---- R27.c: path normalisation ------------------------------------------------------------------
def r27c(ctx, run):
    fn = ctx.syn.fn("FileName::get_components", "hir/src/common/names.rs")
    F = "FileName::get_components"
    # transformations inside .map closures over relative_path.components()
    n_tr = 0
    for n in walk(fn.body):
        if n.get("k") == "mcall" and n["m"] == "replace" and len(n["a"]) == 2:
            # judged below by evaluating the normalisation on sample components (a replacement can be part of an injective escaping scheme)
            n_tr += 1
        if n.get("k") == "mcall" and n["m"] in ("strip_suffix", "trim_end_matches", "strip_prefix") and canon(n["r"]) != "file_name":
            # applied inside a map over every component?
            n_tr += 1
            inside_map = any(m2.get("k") == "mcall" and m2["m"] == "map" and any(x is n for cl in m2["a"] for x in walk(cl)) for m2 in walk(fn.body))
            if inside_map:
                run.finding(F, "%s:all-components" % n["m"], fn.file, n["ln"],
                            "%s(%s) is applied to every path component, not only the file name: directory `x.capy/` and directory `x/` give the same part"
                            % (n["m"], canon(n["a"][0])))
            else:
                run.ok(fn.site(n["ln"]), "%s applied to a single component" % n["m"])
        if n.get("k") == "mcall" and n["m"] in ("to_lowercase", "to_uppercase", "to_ascii_lowercase", "to_ascii_uppercase", "trim"):
            n_tr += 1
            run.finding(F, "fold:%s" % n["m"], fn.file, n["ln"], "path component transformation .%s() is not injective" % n["m"])
    # the normalisation evaluated on sample components: any two different directory components that get the same symbol part, other than
    # through the two transformations reported above ('.' -> '-', the .capy strip), is a further way for two files to share a symbol
    from symint import SymInterp
    from absint import Panic, CannotEstablish, Variant
    import os.path as _osp
    maps = [m2 for m2 in walk(fn.body) if m2.get("k") == "mcall" and m2["m"] == "map" and m2["a"] and m2["a"][0].get("k") == "closure"
            and any(x.get("k") in ("if", "mcall") and ("replace" in canon(x) or "strip" in canon(x) or "stem" in canon(x)) for x in walk(m2["a"][0]))]
    if not maps:
        raise LookupError("the closure of get_components that normalises a path component")
    clo = maps[-1]["a"][0]

    class PS(str):
        """a path object wrapping a component"""

    class NI(SymInterp):
        def default_method(self, recv, m, args, e):
            if isinstance(recv, str):
                if m == "contains":
                    return any(a_ in recv for a_ in args[0]) if isinstance(args[0], (list, tuple)) else args[0] in recv
                if m == "strip_suffix":
                    return recv[:-len(args[0])] if args[0] and recv.endswith(args[0]) else None
                if m == "strip_prefix":
                    return recv[len(args[0]):] if recv.startswith(args[0]) else None
                if m in ("trim_end_matches",):
                    r = recv
                    while args[0] and r.endswith(args[0]):
                        r = r[:-len(args[0])]
                    return r
                if m == "replace":
                    return recv.replace(args[0], args[1])
                if m in ("to_lowercase", "to_ascii_lowercase"):
                    return recv.lower()
                if m in ("to_uppercase", "to_ascii_uppercase"):
                    return recv.upper()
                if m in ("into", "as_ref", "to_string", "to_owned", "to_str", "to_string_lossy", "as_os_str", "as_str", "deref", "borrow", "into_owned"):
                    return str(recv) if not isinstance(recv, PS) else recv
                if m == "file_stem":
                    base = str(recv)
                    if base.startswith(".") and base.count(".") == 1:
                        return base
                    return base.rsplit(".", 1)[0] if "." in base else base
                if m == "extension":
                    base = str(recv)
                    return base.rsplit(".", 1)[1] if "." in base.lstrip(".") else None
                if m == "with_extension":
                    base = str(recv)
                    stem = base.rsplit(".", 1)[0] if "." in base else base
                    return PS(stem + ("." + args[0] if args[0] else ""))
                if m in ("split", "rsplit") and isinstance(args[0], str):
                    return recv.split(args[0]) if m == "split" else list(reversed(recv.split(args[0])))
                if m in ("split_once", "rsplit_once"):
                    if args[0] not in recv:
                        return None
                    a, b = (recv.split(args[0], 1) if m == "split_once" else recv.rsplit(args[0], 1))
                    return (a, b)
                if m == "len":
                    return len(recv)
            if isinstance(recv, list) and m == "next":
                return recv.pop(0) if recv else None
            if m in ("and_then", "map") and len(args) == 1 and not isinstance(recv, list):
                if recv is None:
                    return None
                return self.call_closure(args[0], [recv])
            if m == "unwrap_or" and len(args) == 1:
                return args[0] if recv is None else recv
            return super().default_method(recv, m, args, e)
    samples = ["json", "json.v1", "json.v2", "json-v1", "x.capy", "x", "a.b.capy", "a.b", "a-b", "lib.old", "lib.new", ".hidden", "v1.2.3", "v1.2.4",
               "Foo", "foo", "FOO.v1", "foo.v1", "a_b", "a b", "x.CAPY", " x", "x ", "json..old", "json-old", "json--old", "a.-b", "a-.b", "a...b", "a--.b", "a-b-c", "a.b-c"]
    images = {}
    failed = None
    for c_ in samples:
        it = NI(funcs={"Path::new": lambda i, a: PS(a[0]), "std::path::Path::new": lambda i, a: PS(a[0]), "Cow::Borrowed": lambda i, a: a[0], "Cow::Owned": lambda i, a: a[0],
                       "String::from": lambda i, a: a[0]})
        try:
            r = it.call_closure(("closure", clo, {}), [c_])
        except (Panic, CannotEstablish) as ce:
            failed = "cannot establish how the component `%s` is normalised: %s" % (c_, getattr(ce, "what", ce))
            break
        images.setdefault(str(r), []).append(c_)
    if failed:
        run.finding(F, "normalisation-unknown", fn.file, clo["ln"], failed)
    else:
        def explained(a, b):
            na, nb = a, b
            for x in (0, 1):
                na = na[:-5] if na.endswith(".capy") else na
                nb = nb[:-5] if nb.endswith(".capy") else nb
            return na.replace(".", "-") == nb.replace(".", "-")
        new, dotdash = [], []
        for img, pre in images.items():
            for i_ in range(len(pre)):
                for j_ in range(i_ + 1, len(pre)):
                    if not explained(pre[i_], pre[j_]):
                        new.append((pre[i_], pre[j_], img))
                    elif pre[i_].replace(".capy", "") != pre[j_].replace(".capy", ""):
                        dotdash.append((pre[i_], pre[j_], img))
        if dotdash:
            a, b, img = dotdash[0]
            # (the key is the one this collision class was first recorded under)
            run.finding(F, "replace:'.'->\"-\"", fn.file, clo["ln"],
                        "components that differ only in '.' vs '-' get the same symbol part: `%s` and `%s` both become `%s` (%d such pairs among the samples)" % (a, b, img, len(dotdash)))
        if new:
            a, b, img = new[0]
            run.finding(F, "collision:%s~%s" % (a, b), fn.file, clo["ln"],
                        "the directory components `%s` and `%s` both become the symbol part `%s` (%d such pairs among %d sample components): files below them with equal "
                        "remaining paths and names get one symbol" % (a, b, img, len(new), len(samples)))
        else:
            run.ok(fn.site(clo["ln"]), "component normalisation evaluated on %d sample components: no collision beyond the reported '.'->'-' and .capy-strip ones" % len(samples))
    from absint import Obj, Term
    # the whole of get_components evaluated on sample paths (project files below the working directory, module files below the module directory):
    # two different files must not get the same (module name, parts) - except through the collisions already reported
    MOD, CWD = "/mods", "/proj"

    class PSX(PS):
        pass

    def comps(pth):
        return [c for c in str(pth).split("/") if c]

    class GI(NI):
        def default_method(self, recv, m, args, e):
            if isinstance(recv, PS):
                if m == "is_sub_dir_of":
                    a_, b_ = comps(recv), comps(args[0])
                    return a_[:len(b_)] == b_
                if m == "strip_prefix":
                    a_, b_ = comps(recv), comps(args[0])
                    return PS("/".join(a_[len(b_):])) if a_[:len(b_)] == b_ else None
                if m == "components":
                    return list(comps(recv))
                if m in ("unwrap", "as_path", "to_path_buf"):
                    return recv
            if isinstance(recv, list):
                if m == "filter":
                    return [x for x in recv if self.call_closure(args[0], [x]) is not False]
                if m == "nth":
                    return recv[args[0]] if isinstance(args[0], int) and 0 <= args[0] < len(recv) else None
                if m == "map":
                    return [self.call_closure(args[0], [x]) for x in recv]
                if m in ("skip",):
                    return recv[args[0]:]
                if m == "collect":
                    return recv
            if isinstance(recv, str) and not isinstance(recv, PS):
                if m in ("as_os_str", "to_str", "to_string_lossy", "as_ref"):
                    return recv
            if m == "is_some_and":
                return False if recv is None else bool(self.call_closure(args[0], [recv]))
            if m == "unwrap" and recv is not None:
                return recv
            return super().default_method(recv, m, args, e)

    def components_of(pth):
        it = GI(funcs={"Path::new": lambda i, a: PS(a[0]), "std::path::Path::new": lambda i, a: PS(a[0]), "env::current_dir": lambda i, a: PS(CWD),
                       "std::env::current_dir": lambda i, a: PS(CWD), "Cow::Borrowed": lambda i, a: a[0], "Cow::Owned": lambda i, a: a[0], "String::from": lambda i, a: a[0]},
                macros={"matches": lambda i, e, env: False, "dbg": lambda i, e, env: None})
        it.methods["lookup"] = lambda i, r, a: pth
        r = it.run_fn(fn, {"self": Obj("self", **{"0": Term("key")}), "mod_dir": PS(MOD), "interner": Term("interner")})
        mod_name = r.fields.get("mod_name") if isinstance(r, Obj) else None
        parts = r.fields.get("sub_parts") if isinstance(r, Obj) else None
        if not isinstance(parts, list):
            raise CannotEstablish("sub_parts is %r" % (parts,))
        return (mod_name, tuple(str(x) for x in parts))
    proj = ["config.capy", "src/config.capy", "a/config.capy", "a/src/config.capy", "b/src/config.capy", "src/src/config.capy", "src/a/config.capy"]
    mods = ["m/config.capy", "m/src/config.capy", "m/a/config.capy", "n/src/config.capy", "m/src/a/config.capy", "m/src/src/config.capy"]
    images = {}
    failed = None
    for rel, root in [(x, CWD) for x in proj] + [(x, MOD) for x in mods]:
        try:
            images.setdefault(components_of(root + "/" + rel), []).append((root == MOD, rel))
        except (Panic, CannotEstablish) as ce:
            failed = "cannot establish the components of `%s`: %s" % (rel, getattr(ce, "what", ce))
            break
    if failed:
        run.finding(F, "components-unknown", fn.file, fn.ln, failed)
    else:
        seen_cls = set()
        for img, pre in sorted(images.items(), key=str):
            for i_ in range(len(pre)):
                for j_ in range(i_ + 1, len(pre)):
                    (m1, r1), (m2, r2) = pre[i_], pre[j_]
                    c1, c2 = r1.split("/"), r2.split("/")
                    # classes: (known) a project file's first directory dropped because `src` follows it; (by layout) a module's <mod>/src/p and <mod>/p
                    def dropped_first(c):
                        return len(c) > 2 and c[1] == "src"
                    if not m1 and not m2 and (dropped_first(c1) or dropped_first(c2)) and (c1[1:] if dropped_first(c1) else c1) == (c2[1:] if dropped_first(c2) else c2):
                        cls = "src-skip:is_mod=false"
                    elif m1 and m2 and c1[0] == c2[0] and ([x for i, x in enumerate(c1) if not (i == 1 and x == "src")] == [x for i, x in enumerate(c2) if not (i == 1 and x == "src")]):
                        cls = "module-src-root"
                    else:
                        cls = "collision:%s~%s" % (("mod:" if m1 else "") + r1, ("mod:" if m2 else "") + r2)
                    if cls in seen_cls:
                        continue
                    seen_cls.add(cls)
                    if cls == "module-src-root":
                        run.exempt(fn.site(), "`<mod>/src/p` and `<mod>/p` get the same parts",
                                   "a module's sources live in <mod>/src, which is the module's root by layout; a module with the same path inside and outside src is not a supported layout")
                    else:
                        run.finding(F, cls, fn.file, fn.ln,
                                    "the files `%s` and `%s` (%s) both get the symbol parts %s: same-named entities in them share one symbol%s"
                                    % (r1, r2, "module files" if m1 else "project files", list(img[1]),
                                       " - for a project file the component in front of `src` is dropped, not `src` itself" if cls.startswith("src-skip") else ""))
        if not seen_cls - {"module-src-root"}:
            run.ok(fn.site(), "get_components evaluated on %d sample paths: no two files share their parts" % (len(proj) + len(mods)))
    run.ok(fn.site(), "transformations examined: %d" % n_tr)


# ---- R27.d: origins of symbol names (engine A) ----------------------------------------------------
def origins(F, fn, operand, depth=4, seen=None):
    """set of origin tags for a &str operand, following params into callers"""
    seen = seen or set()
    out = set()
    ch = fn.chain_operand(operand, depth=12)
    _origins_chain(F, fn, ch, depth, seen, out)
    return out


def _origins_chain(F, fn, ch, depth, seen, out):
    k = ch.get("kind")
    if k == "call":
        name = FA.short(ch["callee"])
        if name == "to_mangled_name":
            out.add("mangled")
        elif name == "mangle_internal":
            out.add("internal")
        elif name == "lookup" and "Interner" in ch["callee"]:
            out.add("source-name")
        elif name in ("deref", "as_str", "as_ref", "borrow", "as_mut_str", "index", "to_string", "clone", "into", "from"):
            for a in ch["args"][:1]:
                _origins_chain(F, fn, a, depth, seen, out)
        elif name in ("format", "must_use"):
            out.add("format@%s:%d" % (fn.file, ch["ln"]))
        else:
            out.add("call:" + name)
    elif k == "str":
        out.add("literal:" + ch["value"])
    elif k in ("ref", "cast", "un"):
        _origins_chain(F, fn, ch["of"], depth, seen, out)
    elif k == "place":
        _origins_chain(F, fn, ch["base"], depth, seen, out)
        if ch["proj"] and any(p.startswith(".") for p in ch["proj"]):
            out.add("field:" + "".join(ch["proj"]))
    elif k == "phi":
        for o in ch["opts"]:
            _origins_chain(F, fn, o, depth, seen, out)
    elif k == "param":
        if depth <= 0 or (fn.path, ch["index"]) in seen:
            out.add("param-cut")
            return
        seen.add((fn.path, ch["index"]))
        callers = 0
        target = fn.parent or fn.path
        for g in F.fns:
            for c in g.calls():
                if c.callee == fn.path or FA.strip_generics(c.callee) == fn.norm:
                    idx = ch["index"] - 1
                    if idx < len(c.args):
                        callers += 1
                        out |= origins(F, g, c.args[idx], depth - 1, seen)
        if callers == 0:
            out.add("param-no-callers:%s" % ch.get("name"))
    elif k == "const":
        out.add("const:" + ch["path"])
    else:
        out.add("unknown:" + str(k))


def r27e(ctx, run):
    """every Mangle impl evaluated from its source down to create_mangled_for_file, on model locations: the parts handed over must be, in order, the
    entity's own part (Name of the global / Lambda index, or the Name of the global an anonymous-looking lambda is bound to), the GenericID of the
    instantiation when there is one, and then every further part the impl adds (Comptime index, InternalData name) - none dropped on any branch."""
    from symint import SymInterp
    from absint import Obj, Term, Variant, Panic, CannotEstablish, _Return
    F = "codegen/src/mangle.rs"
    fns = {f.qual.rsplit("::", 1)[-1]: f for f in ctx.syn.fns_in(F) if f.body is not None and not f.in_test and f.trait is None}
    impls = {f.impl_ty: f for f in ctx.syn.fns_in(F) if f.name == "to_mangled_name" and f.trait == "Mangle"}
    if "create_mangled_for_file" not in fns or len(impls) < 8:
        raise LookupError("mangle helpers / impls: %d / %d" % (len(fns), len(impls)))

    def leaves(v):
        if isinstance(v, Term):
            out = set()
            for a in v.args:
                out |= leaves(a)
            return out | ({v.op} if not v.args else set())
        if isinstance(v, Obj):
            out = set()
            for x in v.fields.values():
                out |= leaves(x)
            return out
        if isinstance(v, str):
            return {v}
        return set()

    def mk_interp(bound_global, log):
        class MI(SymInterp):
            def eval(self, e, env):
                k = e.get("k")
                if k in ("ref",) or (k == "un" and e.get("op") in ("*", "&")):
                    return self.eval(e["e"], env)
                if k == "field" and e["m"].isdigit():
                    b = self.eval(e["e"], env)
                    if isinstance(b, Obj) and e["m"] in b.fields:
                        return b.fields[e["m"]]
                return super().eval(e, env)

            def default_method(self, recv, m, args, e):
                if isinstance(recv, Obj) and m in recv.fields and not args:
                    return recv.fields[m]
                if isinstance(recv, Obj) and recv.name in ("ConcreteGlobalLoc", "ConcreteLambdaLoc") and m == "to_naive":
                    return recv.fields["naive"]
                if isinstance(recv, Variant) and recv.path.startswith("ConcreteLoc::"):
                    inner = recv.payload["0"]
                    if m == "to_naive":
                        return Variant("NaiveLoc::" + recv.last, {"0": inner.fields["naive"]})
                    if m == "comptime_args":
                        return inner.fields["comptime_args"]
                if m == "map" and len(args) == 1 and (recv is None or isinstance(recv, (Term, Obj))):
                    return None if recv is None else self.call_closure(args[0], [recv])
                if m == "into_iter" and (recv is None or isinstance(recv, Obj)):
                    return [] if recv is None else [recv]
                if m == "chain" and isinstance(recv, list) and len(args) == 1 and isinstance(args[0], list):
                    return recv + args[0]
                if m in ("collect_vec", "collect") and isinstance(recv, list):
                    return recv
                if m in ("into", "to_string", "clone", "as_ref", "into_raw", "raw_start", "to_owned"):
                    return Term(m, recv) if m in ("into_raw", "raw_start") else recv
                if m == "lookup" and len(args) == 1:
                    return Term("lookup", args[0])
                if m == "to_mangled_name" and isinstance(recv, (Obj, Variant)):
                    tname = recv.name if isinstance(recv, Obj) else recv.path.split("::")[0]
                    if tname in impls:
                        return self.inline(impls[tname], args, recv=recv)
                return super().default_method(recv, m, args, e)

        def file_sink(i, a):
            log.append((a[0], list(a[3]) if isinstance(a[3], list) else a[3]))
            return Term("mangled")
        it = MI(resolver=lambda path: fns.get(path.rsplit("::", 1)[-1]) if path.rsplit("::", 1)[-1] != "create_mangled_for_file" else None,
                funcs={"create_mangled_for_file": file_sink, "get_naive_lambda_global": lambda i, a: bound_global,
                       "std::iter::once": lambda i, a: [a[0]], "iter::once": lambda i, a: [a[0]], "std::iter::empty": lambda i, a: [], "iter::empty": lambda i, a: [],
                       "Some": lambda i, a: a[0]})
        return it
    gname = Obj("NaiveGlobalLoc", file=Term("FILE_G"), name=Obj("Name", **{"0": Term("NAME_G")}))
    bound = Obj("NaiveGlobalLoc", file=Term("FILE_B"), name=Obj("Name", **{"0": Term("NAME_B")}))
    lname = Obj("NaiveLambdaLoc", file=Term("FILE_L"), lambda_=Term("LAMBDA_IDX"))
    lname.fields["lambda"] = lname.fields.pop("lambda_")
    cases = []
    for key in (None, Term("GENERIC_KEY")):
        cg = Obj("ConcreteGlobalLoc", naive=gname, comptime_args=key)
        cl = Obj("ConcreteLambdaLoc", naive=lname, comptime_args=key)
        gen = [("GenericID", "GENERIC_KEY")] if key is not None else []
        for bg in (None, bound):
            own_l = [("Name", "NAME_B")] if bg is not None else [("Lambda", "LAMBDA_IDX")]
            sfx = "%s%s" % (", generic instance" if key is not None else "", ", bound to a global" if bg is not None else "")
            cases += [
                ("NaiveLambdaLoc" + sfx, "NaiveLambdaLoc", lname, bg, own_l) if key is None else None,
                ("ConcreteLambdaLoc" + sfx, "ConcreteLambdaLoc", cl, bg, own_l + gen),
                ("ConcreteLoc::Lambda" + sfx, "ConcreteLoc", Variant("ConcreteLoc::Lambda", {"0": cl}), bg, own_l + gen),
                ("NaiveLoc::Lambda" + sfx, "NaiveLoc", Variant("NaiveLoc::Lambda", {"0": lname}), bg, own_l) if key is None else None,
                ("comptime block in a lambda" + sfx, "ComptimeLoc", Obj("ComptimeLoc", loc=Variant("ConcreteLoc::Lambda", {"0": cl}), comptime=Term("COMPTIME_IDX")), bg,
                 own_l + gen + [("Comptime", "COMPTIME_IDX")]),
                ("data of a comptime block in a lambda" + sfx, "(ComptimeLoc,&str)",
                 Obj("tuple", **{"0": Obj("ComptimeLoc", loc=Variant("ConcreteLoc::Lambda", {"0": cl}), comptime=Term("COMPTIME_IDX")), "1": Term("DATA_NAME")}), bg,
                 own_l + gen + [("Comptime", "COMPTIME_IDX"), ("InternalData", "DATA_NAME")]),
            ]
        sfx = ", generic instance" if key is not None else ""
        cases += [
            ("NaiveGlobalLoc", "NaiveGlobalLoc", gname, None, [("Name", "NAME_G")]) if key is None else None,
            ("ConcreteGlobalLoc" + sfx, "ConcreteGlobalLoc", cg, None, [("Name", "NAME_G")] + gen),
            ("ConcreteLoc::Global" + sfx, "ConcreteLoc", Variant("ConcreteLoc::Global", {"0": cg}), None, [("Name", "NAME_G")] + gen),
            ("comptime block in a global" + sfx, "ComptimeLoc", Obj("ComptimeLoc", loc=Variant("ConcreteLoc::Global", {"0": cg}), comptime=Term("COMPTIME_IDX")), None,
             [("Name", "NAME_G")] + gen + [("Comptime", "COMPTIME_IDX")]),
            ("function to compile" + sfx, "FunctionToCompile", Obj("FunctionToCompile", loc=Variant("ConcreteLoc::Global", {"0": cg})), None, [("Name", "NAME_G")] + gen),
        ]
    tuple_impl = [f for f in ctx.syn.fns_in(F) if f.name == "to_mangled_name" and f.impl_ty and f.impl_ty.startswith("(")]
    n = 0
    for c in cases:
        if c is None:
            continue
        desc, ty, selfv, bg, want = c
        impl = impls.get(ty) if not ty.startswith("(") else (tuple_impl[0] if tuple_impl else None)
        if impl is None:
            run.finding("Mangle for " + ty, "impl-missing", F, 0, "no Mangle impl for %s found" % ty)
            continue
        log = []
        it = mk_interp(bg, log)
        try:
            try:
                it.inline(impl, [Term("mod_dir"), Term("interner")], recv=selfv)
            except _Return:
                pass
            got = None
            if len(log) != 1 or not isinstance(log[0][1], list):
                got = "cannot establish: %d calls of create_mangled_for_file" % len(log)
            else:
                got = []
                for part in log[0][1]:
                    if not isinstance(part, Obj) or "kind" not in part.fields:
                        got.append(("?", repr(part)[:30]))
                        continue
                    kd = part.fields["kind"]
                    lv = sorted(x for x in leaves(part.fields.get("text")) if x.isupper() or "_" in x)
                    got.append((kd.last if isinstance(kd, Variant) else str(kd), lv[0] if len(lv) == 1 else "/".join(lv)))
        except (Panic, CannotEstablish) as ce:
            got = "cannot establish: %s" % getattr(ce, "what", ce)
        n += 1
        ok = got == want
        def show(ps):
            return ps if isinstance(ps, str) else " ".join("%s(%s)" % (k_, t_.lower()) for k_, t_ in ps)
        run.check(ok, impl.site(), "%s -> %s" % (desc, show(got)), "Mangle for " + ty, "parts:" + desc, impl.file, impl.ln,
                  "the symbol of a %s is built from the parts [%s]; it must be [%s]: a part that tells two entities apart is missing (or out of order), so distinct entities "
                  "get the same symbol" % (desc, show(got), show(want)))
    if n < 20:
        raise LookupError("Mangle impl evaluations: %d" % n)


def r27d(ctx, run):
    F = ctx.facts
    n = 0
    for fn in F.fns:
        if fn.crate != "codegen":
            continue
        for c in fn.calls():
            nm = FA.short(c.declared)
            if nm not in ("declare_function", "declare_data") or "cranelift_module" not in c.declared:
                continue
            n += 1
            o = origins(F, fn, c.args[1])
            linkage = FA.show_chain(fn.chain_operand(c.args[2]))
            # resolve format!() origins to their format string through the syntax dump
            for t in list(o):
                if t.startswith("format@"):
                    ffile, fln = t[7:].rsplit(":", 1)
                    fmts = [m for sf in ctx.syn.fns_in(ffile) if sf.body is not None for m in synq.macros(sf.body, "format")
                            if m["ln"] <= int(fln) <= m.get("end", m["ln"])]
                    if len(fmts) == 1 and fmts[0]["a"] and fmts[0]["a"][0]["k"] == "lit":
                        o.discard(t)
                        o.add("literal:" + fmts[0]["a"][0]["v"])
            ok_tags = {t for t in o if t in ("mangled", "internal", "source-name") or t.startswith("literal:") or t.startswith("field:")}
            bad = o - ok_tags
            owner = FA.strip_generics(fn.parent or fn.path)
            what = "%s(name from %s, %s) in %s" % (nm, sorted(o), linkage, owner)
            if bad:
                run.finding(owner, "name-origin:%s" % nm, c.file, c.ln, "symbol name passed to %s has an origin the analysis does not know: %s" % (nm, sorted(bad)))
                continue
            # source names (user spellings) only for imports
            if "source-name" in o and "Import" not in linkage:
                run.finding(owner, "raw-name:%s" % nm, c.file, c.ln, "a source-level name is declared with linkage %s: only extern (Import) symbols may use the user's spelling" % linkage)
                continue
            lits = [t[8:] for t in o if t.startswith("literal:")]
            badlit = [l for l in lits if l[:1].isupper() or l.startswith("_CI")]
            if badlit:
                run.finding(owner, "literal-name:%s" % nm, c.file, c.ln, "literal symbol name %s can collide with mangled/internal names (upper-case or _CI prefix)" % badlit)
                continue
            run.ok(c.site(), what)
    if n < 8:
        raise LookupError("declare_function/declare_data call sites: %d" % n)
    # first-character classes
    mi = ctx.syn.fn("mangle_internal", "codegen/src/mangle.rs")
    fm = [m for m in synq.macros(mi.body, "format")]
    good = len(fm) == 1 and fm[0]["tokens"].startswith('"_CI{}{}E"')
    run.check(good, mi.site(), "internal names start with `_CI`", "mangle_internal", "prefix", mi.file, mi.ln, "mangle_internal must prefix `_CI` (disjoint from the upper-case table of contents)")
    # (that a mangled name's table of contents is never empty is decided by R27.e: every evaluated parts list starts with the entity's own part; a
    # textual clause that demanded `iter::once(MangledPart` at the call was removed - it flagged a behaviour-preserving restructuring)


def rules(ctx):
    return [
        Rule("R27.a", "symbol layout: one table-of-contents letter per part, the parts in the same order, terminator; part-kind codes pairwise distinct", 2, r27a),
        Rule("R27.b", "the part encoding is uniquely decodable for every part kind's text class", 8, r27b),
        Rule("R27.c", "path component normalisation is injective; the `src` skip drops the component it tested", 2, r27c),
        Rule("R27.e", "every Mangle impl evaluated down to create_mangled_for_file: own part, generic id, comptime index, data name - all present, in order, on every branch", 20, r27e),
        Rule("R27.d", "symbol names come only from the mangler / internal mangler / literals / extern names; families disjoint by first character", 12, r27d),
    ]

"""C19 — calls across the C boundary pass values intact (claimed in part: the System V classification tables).

The x86-64 System V classification of arguments is written as small table-like functions in
codegen/src/convert/abi/x86_64.rs.  They are evaluated here *abstractly* (engine B, lib/symint.py) on the
finite set of classes and on one representative of every kind of type, and compared with the psABI's own
tables.  Nothing of capy is executed; no C compiler is consulted.
"""
from core import Rule
from absint import Interp, Obj, Term, Variant, Panic, CannotEstablish
from symint import SymInterp, Env
import synq
from synq import canon, walk

PROPERTY = "C19"
TITLE = "Calls across the C boundary pass values intact"
NEEDS = ("syn",)
TECHNIQUE = ("static analysis: abstract evaluation of the System V classification functions over the finite class lattice and one "
             "representative per type kind, compared with the psABI tables; register-file constants by def-use")
EXPLANATION = (
    "Engine B, abstract evaluation of codegen/src/convert/abi/x86_64.rs without running it: (a) Class::merge_eigthbyte over all "
    "16 class pairs equals the psABI merge rules (equal -> same, NO_CLASS is the identity, INTEGER dominates, otherwise SSE) and "
    "is symmetric; (b) classify_eight_byte evaluated per type kind: every kind that occupies registers (integers of every width, "
    "bool, char, pointers, strings, type ids, function values AND function pointers) marks the eightbyte(s) it covers INTEGER - "
    "two of them when it is wider than 8 bytes -, floats mark SSE, slices/raw slices/any mark two INTEGER eightbytes, distinct "
    "and variant types are transparent, struct members are classified at offset + their own layout offset, array elements at "
    "offset + index * stride, tagged unions add an INTEGER tag at discriminant_offset; no sized kind is left NO_CLASS (the "
    "register splitter panics on NO_CLASS); (c) the post-merger of classify_arg: more than two eightbytes go to memory unless "
    "they form one SSE vector, more than eight always; (d) reg_component picks an integer register type of min(size, 8) bytes "
    "rounded to a power of two for INTEGER and f32/f64 by size for SSE; (e) fn_ty_to_abi starts from 6 INTEGER and 8 SSE "
    "registers, an indirectly returned value consumes one INTEGER register, an argument is passed in registers only when all its "
    "eightbytes fit the registers left, otherwise by value in memory.")
NOT_DECIDED = [
    "the word moves of FnAbi::get_arg_list / build_fn / handle_ret (PassMode::Cast loads and stores; value-level offsets)",
    "agreement with the host C compiler for every signature (needs cross-language execution)",
    "the Windows and AArch64 tables (the property is stated for x86-64 System V)",
    "X87 / vector (SSEUP) classes: no capy type produces them",
]
ASSUMPTIONS = ["type sizes and struct offsets are those of layout.rs (C17)", "cranelift lowers the produced signature per System V"]

X = "codegen/src/convert/abi/x86_64.rs"
CLASSES = ("Int", "Sse", "SseUp", "NoClass")


def cls(n):
    return Variant("Class::" + n)


class NestedFn:
    """a fn item nested in another fn's body, in the shape lib code expects"""
    def __init__(self, outer, node):
        self.file, self.ln, self.body, self.node, self.qual = outer.file, node["ln"], node["b"], node, outer.qual + "::" + node["name"]

    def param_names(self):
        return [p["p"].get("n") for p in self.node["params"]]

    def site(self, ln=None):
        return "%s:%s" % (self.file, ln or self.ln)


def nested(outer, name):
    for s in outer.body["s"]:
        if s.get("k") == "fn" and s.get("name") == name:
            return NestedFn(outer, s)
    raise LookupError("fn %s inside %s" % (name, outer.qual))


def merge_fn(ctx):
    return ctx.syn.fn("Class::merge_eigthbyte", X)


def run_merge(ctx, a, b):
    f = merge_fn(ctx)
    it = SymInterp()
    return it.run_fn(f, {"self": a, f.param_names()[1]: b})


def r19a(ctx, run):
    f = merge_fn(ctx)
    for a in CLASSES:
        for b in CLASSES:
            if a == b:
                want = a
            elif a == "NoClass":
                want = b
            elif b == "NoClass":
                want = a
            elif "Int" in (a, b):
                want = "Int"
            else:
                want = "Sse"
            try:
                got = run_merge(ctx, cls(a), cls(b))
            except (Panic, CannotEstablish) as c:
                run.finding("Class::merge_eigthbyte", "merge:%s,%s" % (a, b), f.file, f.ln, "cannot establish merge(%s, %s): %s" % (a, b, getattr(c, "what", c)))
                continue
            name = got.last if isinstance(got, Variant) else repr(got)
            run.check(name == want, f.site(), "merge(%s, %s) = %s" % (a, b, name), "Class::merge_eigthbyte", "merge:%s,%s" % (a, b), f.file, f.ln,
                      "merge(%s, %s) = %s; the System V rules give %s (equal -> same, NO_CLASS identity, INTEGER dominates, otherwise SSE)" % (a, b, name, want))


# ---- (b) per-kind classification --------------------------------------------------------------------------

SUB = Variant("TySym", {"n": "sub"})


def samples():
    """(name, Ty value, size, expected list of (eightbyte index relative to offset/8, class), transparent-recursion spec)"""
    I, S = "Int", "Sse"
    out = []
    for w in (8, 16, 32, 64):
        out.append(("i%d" % w, Variant("Ty::IInt", {"0": w}), w // 8, [(0, I)]))
        out.append(("u%d" % w, Variant("Ty::UInt", {"0": w}), w // 8, [(0, I)]))
    out.append(("i128", Variant("Ty::IInt", {"0": 128}), 16, [(0, I), (1, I)]))
    out.append(("usize", Variant("Ty::UInt", {"0": 255}), 8, [(0, I)]))
    out.append(("bool", Variant("Ty::Bool"), 1, [(0, I)]))
    out.append(("char", Variant("Ty::Char"), 1, [(0, I)]))
    out.append(("str", Variant("Ty::String"), 8, [(0, I)]))
    out.append(("type", Variant("Ty::Type"), 4, [(0, I)]))
    out.append(("^T", Variant("Ty::Pointer", {"mutable": False, "sub_ty": SUB}), 8, [(0, I)]))
    out.append(("rawptr", Variant("Ty::RawPtr", {"mutable": False}), 8, [(0, I)]))
    out.append(("function value", Variant("Ty::ConcreteFunction", {"param_tys": [], "return_ty": SUB, "fn_loc": Term("loc")}), 8, [(0, I)]))
    out.append(("function pointer", Variant("Ty::FunctionPointer", {"param_tys": [], "return_ty": SUB}), 8, [(0, I)]))
    out.append(("f32", Variant("Ty::Float", {"0": 32}), 4, [(0, S)]))
    out.append(("f64", Variant("Ty::Float", {"0": 64}), 8, [(0, S)]))
    out.append(("[]T", Variant("Ty::Slice", {"sub_ty": SUB}), 16, [(0, I), (1, I)]))
    out.append(("rawslice", Variant("Ty::RawSlice"), 16, [(0, I), (1, I)]))
    out.append(("any", Variant("Ty::Any"), 16, [(0, I), (1, I)]))
    return out


class CI(SymInterp):
    """classify_eight_byte on one type; nested types are symbols whose recursive classification is recorded"""

    def __init__(self, ctx, sizes, struct_offsets=None, enum_discr=None, strides=None):
        self.ctx, self.sizes, self.struct_offsets, self.enum_discr, self.strides = ctx, sizes, struct_offsets or {}, enum_discr or {}, strides or {}
        self.rec = []
        outer = ctx.syn.fn("classify_arg", X)
        self.inner = nested(outer, "classify_eight_byte")
        methods = {
            "merge_eigthbyte": lambda i, r, a: run_merge(ctx, r, a[0]),
            "size": self._size, "stride": lambda i, r, a: self.strides.get(self._key(r), NotImplemented),
            "struct_layout": lambda i, r, a: Obj("StructLayout", offs=self.struct_offsets.get(self._key(r))) if self._key(r) in self.struct_offsets else None,
            "offsets": lambda i, r, a: list(r.fields["offs"]) if isinstance(r, Obj) and "offs" in r.fields else NotImplemented,
            "enum_layout": lambda i, r, a: Obj("EnumLayout", d=self.enum_discr[self._key(r)]) if self._key(r) in self.enum_discr else None,
            "discriminant_offset": lambda i, r, a: r.fields["d"] if isinstance(r, Obj) and "d" in r.fields else NotImplemented,
        }
        super().__init__(methods=methods, funcs={"classify_eight_byte": self._rec})
        self.consts.update({"Int": cls("Int"), "Sse": cls("Sse"), "SseUp": cls("SseUp"), "NoClass": cls("NoClass")})

    @staticmethod
    def _key(v):
        return repr(v)

    def _size(self, i, r, a):
        k = self._key(r)
        if k in self.sizes:
            return self.sizes[k]
        return NotImplemented

    def _rec(self, i, a):
        # a recursive classification of a member type at an offset: recorded, and (for symbols) marks nothing itself
        self.rec.append((a[0], a[2]))
        if isinstance(a[0], Variant) and a[0].last != "TySym" and getattr(self, "follow", False):
            names = self.inner.param_names()
            self.run_fn(self.inner, {names[0]: a[0], names[1]: a[1], names[2]: a[2]})
        return None

    def eval(self, e, env):
        if e["k"] == "cast":
            v = self.eval(e["e"], env)
            if isinstance(v, int) and not isinstance(v, bool):
                return v
        return super().eval(e, env)

    def classify(self, ty, offset):
        classes = [cls("NoClass") for _ in range(8)]
        names = self.inner.param_names()
        self.run_fn(self.inner, {names[0]: ty, names[1]: classes, names[2]: offset})
        return [c.last if isinstance(c, Variant) else repr(c) for c in classes]


def r19b(ctx, run):
    outer = ctx.syn.fn("classify_arg", X)
    inner = nested(outer, "classify_eight_byte")
    F = "classify_arg::classify_eight_byte"
    for name, ty, size, want in samples():
        for offset in (0, 8):
            if offset + size > 64:
                continue
            it = CI(ctx, {repr(ty): size})
            try:
                got = it.classify(ty, offset)
            except (Panic, CannotEstablish) as c:
                run.finding(F, "kind:%s" % name, inner.file, inner.ln, "cannot establish the classification of %s at offset %d: %s" % (name, offset, getattr(c, "what", c)))
                break
            exp = ["NoClass"] * 8
            for rel, c in want:
                exp[offset // 8 + rel] = c
            if got == exp:
                run.ok(inner.site(), "%s at offset %d -> %s" % (name, offset, [c for c in got if c != "NoClass"]))
            else:
                missing = all(c == "NoClass" for c in got)
                run.finding(F, "kind:%s" % name, inner.file, inner.ln,
                            "%s (size %d) at offset %d is classified %s; System V gives %s%s" % (
                                name, size, offset, got[offset // 8: offset // 8 + 2], [c for _, c in want],
                                " - the value is left NO_CLASS, and the register splitter (reg_component) panics on NO_CLASS when such a value is a struct member "
                                "passed by value" if missing else ""))
                break
    # transparent wrappers and aggregates: recursion at the right offsets
    A, B = Variant("TySym", {"n": "a"}), Variant("TySym", {"n": "b"})

    def expect_rec(desc, key, ty, offset, want_rec, want_marks=None, **kw):
        it = CI(ctx, kw.pop("sizes", {}), **kw)
        try:
            got = it.classify(ty, offset)
        except (Panic, CannotEstablish) as c:
            run.finding(F, key, inner.file, inner.ln, "cannot establish the classification of %s: %s" % (desc, getattr(c, "what", c)))
            return
        rec = sorted((repr(t), o) for t, o in it.rec)
        wr = sorted((repr(t), o) for t, o in want_rec)
        marks = {i: c for i, c in enumerate(got) if c != "NoClass"}
        good = rec == wr and (want_marks is None or marks == want_marks)
        run.check(good, inner.site(), "%s: members classified at %s, own marks %s" % (desc, [o for _, o in wr], marks), F, key, inner.file, inner.ln,
                  "%s at offset %d classifies its parts at %s and marks %s itself; System V needs the parts at %s%s" % (
                      desc, offset, [(t[-12:], o) for t, o in rec], marks, [o for _, o in wr], (" and own marks %s" % want_marks) if want_marks is not None else ""))
    expect_rec("distinct T", "wrap:distinct", Variant("Ty::Distinct", {"uid": 1, "sub_ty": A}), 8, [(A, 8)], {})
    expect_rec("variant T", "wrap:variant", Variant("Ty::EnumVariant", {"enum_uid": 1, "variant_name": Term("n"), "uid": 2, "sub_ty": A, "discriminant": 0}), 8, [(A, 8)], {})
    st = Variant("Ty::ConcreteStruct", {"uid": 1, "members": [Obj("MemberTy", name=Term("x"), ty=A), Obj("MemberTy", name=Term("y"), ty=B)]})
    expect_rec("struct {a @0, b @12}", "aggregate:struct", st, 8, [(A, 8), (B, 20)], {}, struct_offsets={repr(st): [0, 12]})
    ar = Variant("Ty::ConcreteArray", {"size": 3, "sub_ty": A, "uid": 1})
    expect_rec("[3]a with stride 12", "aggregate:array", ar, 0, [(A, 0), (A, 12), (A, 24)], {}, strides={repr(A): 12})
    # small elements, array starting in the middle of an eightbyte: every eightbyte the array reaches gets the class of the elements in it (an
    # element that lands in the next eightbyte decides that eightbyte's class).  Concrete element kinds, recursion followed, final classes compared
    f32, u8, f64 = Variant("Ty::Float", {"0": 32}), Variant("Ty::UInt", {"0": 8}), Variant("Ty::Float", {"0": 64})
    for desc, key, elem, esize, count, base, ecls in (
            ("[4]f32 at offset 4", "aggregate:array-mid-eightbyte", f32, 4, 4, 4, "Sse"), ("[8]u8 at offset 1", "aggregate:array-bytes-mid-eightbyte", u8, 1, 8, 1, "Int"),
            ("[2]f64 at offset 8", "aggregate:array-words", f64, 8, 2, 8, "Sse"), ("[3]f32 at offset 0", "aggregate:array-from-boundary", f32, 4, 3, 0, "Sse"),
            ("[2]f32 at offset 12", "aggregate:array-last-half", f32, 4, 2, 12, "Sse")):
        ty = Variant("Ty::ConcreteArray", {"size": count, "sub_ty": elem, "uid": 9})
        it = CI(ctx, {repr(elem): esize, repr(ty): esize * count}, strides={repr(elem): esize})
        it.follow = True
        try:
            got = it.classify(ty, base)
        except (Panic, CannotEstablish) as c:
            run.finding(F, key, inner.file, inner.ln, "cannot establish the classification of %s: %s" % (desc, getattr(c, "what", c)))
            continue
        want = {}
        for i_ in range(count):
            want[(base + i_ * esize) // 8] = ecls
        marks = {i_: c for i_, c in enumerate(got) if c != "NoClass"}
        run.check(marks == want, inner.site(), "%s: eightbytes %s" % (desc, marks), F, key, inner.file, inner.ln,
                  "%s is classified %s; System V gives %s (every eightbyte that holds an element has the elements' class): a struct with such a field is passed in the wrong "
                  "registers, or an eightbyte is not passed at all" % (desc, marks, want))
    en = Variant("Ty::Enum", {"uid": 1, "variants": [A, B]})
    expect_rec("enum {a | b} with tag at 12", "aggregate:enum", en, 0, [(A, 0), (B, 0)], {1: "Int"}, enum_discr={repr(en): 12})
    eu = Variant("Ty::ErrorUnion", {"error_ty": A, "payload_ty": B})
    expect_rec("a!b with tag at 8", "aggregate:error-union", eu, 8, [(A, 8), (B, 8)], {2: "Int"}, enum_discr={repr(eu): 8})
    op = Variant("Ty::Optional", {"sub_ty": A})
    expect_rec("?a with tag at 12", "aggregate:optional", op, 0, [(A, 0)], {1: "Int"}, enum_discr={repr(op): 12})
    expect_rec("?^T (nullable pointer)", "aggregate:optional-pointer", op, 8, [], {1: "Int"}, sizes={repr(op): 8})
    # the tag's eightbyte is counted from the start of the whole argument, not of the tagged value: a tagged value that is a struct member
    expect_rec("?a at offset 8 with tag at 4", "aggregate:optional-at-offset", op, 8, [(A, 8)], {1: "Int"}, enum_discr={repr(op): 4})
    expect_rec("enum {a | b} at offset 8 with tag at 4", "aggregate:enum-at-offset", en, 8, [(A, 8), (B, 8)], {1: "Int"}, enum_discr={repr(en): 4})
    expect_rec("a!b at offset 16 with tag at 9", "aggregate:error-union-at-offset", eu, 16, [(A, 16), (B, 16)], {3: "Int"}, enum_discr={repr(eu): 9})


# ---- (c) post merger of classify_arg ----------------------------------------------------------------------

def r19c(ctx, run):
    f = ctx.syn.fn("classify_arg", X)
    T = Variant("TySym", {"n": "t"})

    def run_classify(size, pre):
        def fill(i, a):
            classes = a[1]
            for k, c in enumerate(pre):
                classes[k] = cls(c)
            return None
        it = SymInterp(methods={"size": lambda i, r, a: size, "div_ceil": lambda i, r, a: -(-r // a[0])}, funcs={"classify_eight_byte": fill})
        it.consts.update({"Class::NoClass": cls("NoClass"), "Class::Sse": cls("Sse"), "Class::SseUp": cls("SseUp"), "Class::Int": cls("Int")})

        class C2(type(it)):
            pass
        orig_eval = it.eval

        def ev(e, env):
            if e["k"] == "cast":
                v = orig_eval(e["e"], env)
                if isinstance(v, int):
                    return v
            return orig_eval(e, env)
        it.eval = ev
        return it.run_fn(f, {f.param_names()[0]: T})
    cases = [
        ("1 eightbyte INTEGER", 8, ["Int"], ["Int"]),
        ("2 eightbytes INTEGER, SSE", 16, ["Int", "Sse"], ["Int", "Sse"]),
        ("2 eightbytes SSE, SSE", 16, ["Sse", "Sse"], ["Sse", "Sse"]),
        ("12 bytes INTEGER, SSE", 12, ["Int", "Sse"], ["Int", "Sse"]),
        ("3 eightbytes INTEGER", 24, ["Int", "Int", "Int"], None),
        ("3 eightbytes SSE,SSE,SSE (not one vector)", 24, ["Sse", "Sse", "Sse"], None),
        ("4 eightbytes mixed", 32, ["Int", "Sse", "Int", "Sse"], None),
        ("9 eightbytes", 72, ["Int"] * 8, None),
    ]
    for desc, size, pre, want in cases:
        try:
            got = run_classify(size, pre)
        except (Panic, CannotEstablish) as c:
            run.finding("classify_arg", "post:%s" % desc, f.file, f.ln, "cannot establish classify_arg for %s: %s" % (desc, getattr(c, "what", c)))
            continue
        if got is None or (isinstance(got, Variant) and got.last == "None"):
            shown = None
        else:
            shown = [c.last for c in got[:len(pre)]]
        run.check(shown == want, f.site(), "%s -> %s" % (desc, "memory" if shown is None else shown), "classify_arg", "post:%s" % desc, f.file, f.ln,
                  "%s is classified %s; System V: %s" % (desc, "MEMORY" if shown is None else shown, "MEMORY (more than two eightbytes that are not one vector)" if want is None else want))


# ---- (d) register component --------------------------------------------------------------------------------

def r19d(ctx, run):
    f = ctx.syn.fn("reg_component", X)
    names = f.param_names()

    def go(classes, size):
        it = SymInterp(funcs={"ir::Type::int_with_byte_size": lambda i, a: Term("int", a[0]), "Type::int_with_byte_size": lambda i, a: Term("int", a[0])},
                       methods={"next_power_of_two": lambda i, r, a: 1 << (r - 1).bit_length() if isinstance(r, int) and r > 0 else NotImplemented,
                                "take_while": lambda i, r, a: _take_while(i, r, a), "count": lambda i, r, a: len(r) if isinstance(r, list) else NotImplemented},
                       macros={"println": lambda i, e, env: None})
        it.consts.update({"ir::types::F32": Term("f32"), "ir::types::F64": Term("f64"), "Class::SseUp": cls("SseUp")})
        orig = it.eval

        def ev(e, env):
            if e["k"] == "cast":
                v = orig(e["e"], env)
                if isinstance(v, int):
                    return v
            return orig(e, env)
        it.eval = ev
        env = Env(None, {names[0]: [cls(c) for c in classes], names[1]: 0, names[2]: size})
        v = it.run_fn(f, env)
        return v

    def _take_while(i, r, a):
        out = []
        for x in r:
            if not i.truth(i.call_closure(a[0], [x]), "take_while closure"):
                break
            out.append(x)
        return out
    for size, want in ((1, 1), (2, 2), (3, 4), (4, 4), (5, 8), (8, 8), (12, 8), (16, 8)):
        try:
            v = go(["Int", "Int"], size)
        except (Panic, CannotEstablish) as c:
            run.finding("reg_component", "int:%d" % size, f.file, f.ln, "cannot establish the INTEGER register type for %d remaining bytes: %s" % (size, getattr(c, "what", c)))
            continue
        run.check(v == Term("int", want), f.site(), "INTEGER eightbyte with %d bytes left -> %d-byte integer register" % (size, want), "reg_component", "int:%d" % size, f.file, f.ln,
                  "INTEGER eightbyte with %d bytes left is passed as %r; must be an integer of %d bytes (min(size, 8) rounded up to a power of two)" % (size, v, want))
    for size, want in ((4, "f32"), (8, "f64"), (16, "f64")):
        try:
            v = go(["Sse", "Int"], size)
        except (Panic, CannotEstablish) as c:
            run.finding("reg_component", "sse:%d" % size, f.file, f.ln, "cannot establish the SSE register type for %d remaining bytes: %s" % (size, getattr(c, "what", c)))
            continue
        run.check(v == Term(want), f.site(), "SSE eightbyte with %d bytes left -> %s" % (size, want), "reg_component", "sse:%d" % size, f.file, f.ln,
                  "SSE eightbyte with %d bytes left is passed as %r; must be %s" % (size, v, want))


# ---- (e) register file ---------------------------------------------------------------------------------------

def r19e(ctx, run):
    f = ctx.syn.fn("fn_ty_to_abi", X)
    lets = {canon(s["p"]).replace("mut ", ""): s for s in f.body["s"] if s["k"] == "local" and s.get("init") is not None}
    # named constants of the file (and of the function) are resolved
    file_consts = {}
    for _f, citem in ctx.syn.items_of("const", X):
        v_ = synq.int_value(citem.get("e")) if citem.get("e") is not None else None
        if v_ is not None:
            file_consts[citem.get("name") or citem.get("ident")] = v_

    def const_value(e):
        v_ = synq.int_value(e)
        if v_ is None and e.get("k") == "path":
            v_ = file_consts.get(e["p"].rsplit("::", 1)[-1])
        return v_
    for name, want, what in (("int_regs", 6, "INTEGER argument registers (rdi rsi rdx rcx r8 r9)"), ("sse_regs", 8, "SSE argument registers (xmm0-7)")):
        s = [v for k, v in lets.items() if k.startswith(name)]
        val = const_value(s[0]["init"]) if s else None
        run.check(val == want, f.site(s[0]["ln"] if s else None), "%s = %s" % (name, val), "fn_ty_to_abi", "regs:" + name, f.file, s[0]["ln"] if s else f.ln,
                  "%s starts at %s; System V has %d %s" % (name, val, want, what))
    # indirect return consumes one INTEGER register (hidden pointer in rdi)
    decs = [n for n in walk(f.body) if n.get("k") == "bin" and n.get("op") == "-=" and canon(n["l"]) == "int_regs" and synq.int_value(n["r"]) == 1]
    ind = [n for n in walk(f.body) if n.get("k") == "if" and n.get("e") is not None and any(x is d for d in decs for x in walk(n["e"])) and "indirect_by_val" in canon(n["e"])]
    run.check(len(decs) == 1 and len(ind) >= 1, f.site(), "a value returned in memory takes one INTEGER register for the hidden pointer", "fn_ty_to_abi", "sret", f.file, f.ln,
              "a return value classified MEMORY must consume exactly one INTEGER register (the hidden result pointer) and be returned indirectly")
    # the argument loop as a state machine: fn_ty_to_abi is evaluated on symbolic argument lists whose classification is given, and the
    # pass mode of every argument is compared with the System V allocation (an aggregate takes registers only if ALL its eightbytes
    # fit the registers left, and if it does not fit it takes NONE - the registers stay available for later arguments)
    INT1, INT2, SSE1, SSE2, MIX, MEM = ["Int"], ["Int", "Int"], ["Sse"], ["Sse", "Sse"], ["Int", "Sse"], None

    def scenario(desc, key, ret_cls, args):
        """args: list of (name, classes or None, aggregate?)"""
        tys = {}

        def mk(name, classes, aggr):
            v = Variant("TySym", {"n": name})
            tys[repr(v)] = (classes, aggr)
            return v
        ret = mk("ret", ret_cls, True) if ret_cls != "void" else mk("ret", [], False)
        params = [Obj("ParamTy", ty=mk("a%d:%s" % (i, n), c, ag)) for i, (n, c, ag) in enumerate(args)]

        def classify(i, a):
            c = tys[repr(a[0])][0]
            if c is None:
                return None
            return [cls(x) for x in c] + [cls("NoClass")] * (8 - len(c))
        local_fns = {g_.qual.rsplit("::", 1)[-1]: g_ for g_ in ctx.syn.fns_in("codegen/src/convert/abi/x86_64.rs") if g_.body is not None and not g_.in_test and g_.qual != f.qual}
        it = SymInterp(
            # helpers of the same file that fn_ty_to_abi is split into run from their own source
            resolver=lambda path: local_fns.get(path.rsplit("::", 1)[-1]) if path.rsplit("::", 1)[-1] not in ("classify_arg", "split_aggregate") else None,
            funcs={"classify_arg": classify, "FnAbi::new": lambda i, a: Obj("FnAbi", args=[], ret=None),
                   "PassMode::cast": lambda i, a: Term("regs"), "PassMode::direct": lambda i, a: Term("direct"),
                   "PassMode::indirect_by_val": lambda i, a: Term("memory", a[0]), "split_aggregate": lambda i, a: Term("split"),
                   # a bare pointer to the caller's own value: not a System V way to pass an argument (memory-class arguments are COPIED onto the stack)
                   "PassMode::indirect": lambda i, a: Term("pointer-to-caller's-value")},
            methods={"is_zero_sized": lambda i, r, a: ret_cls == "void" if repr(r) == repr(ret) else False,
                     "is_aggregate": lambda i, r, a: tys[repr(r)][1], "get_final_ty": lambda i, r, a: r, "into_real_type": lambda i, r, a: r,
                     # a size that is no multiple of eight (a struct of three i32): the copy an argument in memory gets must be a whole number of eightbytes
                     "stride": lambda i, r, a: 12, "size": lambda i, r, a: 12,
                     "next_multiple_of": lambda i, r, a: (r + a[0] - 1) // a[0] * a[0] if isinstance(r, int) and isinstance(a[0], int) and a[0] > 0 else Term("rounded", r, a[0])})
        it.consts.update({"Class::Int": cls("Int"), "Class::Sse": cls("Sse")})
        it.consts.update(file_consts)
        orig = it.eval

        def ev(e, env):
            if e["k"] == "cast":
                v = orig(e["e"], env)
                if isinstance(v, int):
                    return v
            return orig(e, env)
        it.eval = ev
        try:
            sig = it.run_fn(f, {f.param_names()[0] if f.param_names()[0] else "args": None, "args": params, "ret": ret})
        except (Panic, CannotEstablish) as c:
            run.finding("fn_ty_to_abi", "alloc:" + key, f.file, f.ln, "cannot establish the argument passing of %s: %s" % (desc, getattr(c, "what", c)))
            return
        got = [m.op if isinstance(m, Term) else repr(m) for m, _ in sig.fields["args"]]
        for m, _ in sig.fields["args"]:
            if isinstance(m, Term) and m.op == "memory":
                sz = m.args[0] if m.args else None
                run.check(isinstance(sz, int) and sz % 8 == 0 and sz >= 12, f.site(), "%s: the argument in memory is copied as %s bytes (12 rounded up to whole eightbytes)" % (desc, sz),
                          "fn_ty_to_abi", "memory-size:" + key, f.file, f.ln,
                          "%s: an argument of 12 bytes that goes to memory is given %s bytes; the stack copy must cover the value and be a whole number of eightbytes (16) - Cranelift "
                          "rejects a StructArgument whose size is no multiple of 8 with a panic, so a well-typed program would crash the compiler" % (desc, sz))
        # reference allocation
        ints, sses = 6, 8
        if ret_cls is None:
            ints -= 1
        want = []
        for n, c, ag in args:
            if c is None:
                want.append("memory")
                continue
            ni, ns = c.count("Int"), c.count("Sse")
            if ni <= ints and ns <= sses:
                ints, sses = ints - ni, sses - ns
                want.append("regs" if ag else "direct")
            else:
                want.append("memory" if ag else "direct")
        run.check(got == want, f.site(), "%s -> %s" % (desc, got), "fn_ty_to_abi", "alloc:" + key, f.file, f.ln,
                  "%s is passed as %s; System V passes it as %s (an aggregate is passed in registers only when ALL its eightbytes fit the registers "
                  "left; one that does not fit goes to memory whole and takes no register, so later arguments can still use them)" % (desc, got, want))
    I = ("i64", INT1, False)
    D = ("f64", SSE1, False)
    scenario("(i64 x5, struct{i64,i64}, struct{i64})", "straddle-int", "void", [I] * 5 + [("Pair", INT2, True), ("One", INT1, True)])
    scenario("(Pair, Pair, i64, Pair, One)", "straddle-int-2", "void", [("Pair", INT2, True), ("Pair", INT2, True), I, ("Pair", INT2, True), ("One", INT1, True)])
    scenario("(f64 x7, struct{f64,f64}, struct{f64})", "straddle-sse", "void", [D] * 7 + [("DPair", SSE2, True), ("DOne", SSE1, True)])
    scenario("(i64 x6, struct{i64,f64}, struct{f64})", "mixed-needs-both", "void", [I] * 6 + [("Mix", MIX, True), ("DOne", SSE1, True)])
    scenario("big result in memory, (i64 x5, struct{i64})", "sret-takes-rdi", None, [I] * 5 + [("One", INT1, True)])
    scenario("result in registers, (i64 x5, struct{i64})", "ret-regs", INT1, [I] * 5 + [("One", INT1, True)])
    scenario("(struct of 24 bytes, struct{i64})", "memory-class", "void", [("Big", MEM, True), ("One", INT1, True)])


def rules(ctx):
    return [
        Rule("R19.a", "Class::merge_eigthbyte = the psABI merge table (16 pairs)", 16, r19a),
        Rule("R19.b", "per-kind classification: register kinds INTEGER (two eightbytes when wider than 8), floats SSE, aggregates recurse at member offsets, tags INTEGER; nothing sized is NO_CLASS", 30, r19b),
        Rule("R19.c", "more than two eightbytes -> memory (unless one SSE vector); more than eight always", 8, r19c),
        Rule("R19.d", "register component types: INTEGER -> min(size,8) rounded to a power of two; SSE -> f32/f64 by size", 11, r19d),
        Rule("R19.e", "register file: 6 INTEGER / 8 SSE; fn_ty_to_abi as a state machine on symbolic argument lists = System V allocation (all-or-nothing, hidden result pointer)", 10, r19e),
    ]

"""C21 — reproducible builds: no nondeterminism source reaches output (DESIGN §3 C21)."""
import re
from core import Rule
import facts as FA
from facts import short, strip_generics, show_chain, walk_chain, chain_calls

PROPERTY = "C21"
TITLE = "Builds are reproducible"
NEEDS = ("syn", "facts")
TECHNIQUE = "static analysis: type-resolved inventory of hash-container iteration (hasher and key types from rustc), who-may-call on ambient inputs, call-graph reachability from main"
EXPLANATION = (
    "Engine A (resolved callees + generic arguments from rustc): every iteration over a hash container in the 17 crates is "
    "classified by container (std HashMap/HashSet vs insertion-ordered IndexMap/IndexSet), hasher (RandomState is seeded per "
    "process; FxBuildHasher is not) and key type (internment::Intern<_> hashes by address, which varies with ASLR/allocator; "
    "interner keys, names, arena indices and locations are value-stable). A site is accepted when the order it yields cannot "
    "vary between runs, or when it is unreachable from capy::main in the resolved call graph, or when its consumer is "
    "order-insensitive. Ambient inputs (clock, pid, thread id, RandomState::new, environment) may only be used at the "
    "enumerated status-line and path-resolution sites. Pointer-to-integer casts (address exposure) are inventoried.")
NOT_DECIDED = [
    "determinism of Cranelift and of the system linker",
    "stability of the file-system enumeration order (the compiler does not enumerate directories; imports are explicit)",
]
ASSUMPTIONS = [
    "rustc_hash::FxHasher has no per-process seed; indexmap iterates in insertion order",
    "interner keys and arena indices are assigned in a deterministic order (single-threaded front end)",
]

ITER = {"iter", "iter_mut", "keys", "values", "values_mut", "into_iter", "drain", "into_keys", "into_values", "retain", "extract_if"}
ORDER_INSENSITIVE = {"any", "all", "count", "sum", "min", "max", "len", "contains", "is_empty", "for_each_insert"}


def hash_sites(F):
    out = []
    for fn in F.fns:
        for c in fn.calls():
            nm = short(c.callee)
            if nm not in ITER:
                continue
            callee = c.callee
            ga = c.ga
            std_hash = bool(re.search(r"std::collections::(hash::)?(map::|set::)?Hash(Map|Set)", callee)) or (
                nm == "into_iter" and re.match(r"\[(&'\{erased\} (mut )?)?std::collections::Hash(Map|Set)<", ga))
            idx = bool(re.search(r"indexmap::", callee)) or (nm == "into_iter" and re.match(r"\[(&'\{erased\} (mut )?)?indexmap::", ga))
            if not (std_hash or idx):
                continue
            out.append((fn, c, "indexmap" if idx else "std-hash", ga))
    return out


def r21a(ctx, run):
    F = ctx.facts
    reach = F.reachable([f.path for f in F.find("capy::main")] or ["capy::main"])
    sites = hash_sites(F)
    if len(sites) < 20:
        raise LookupError("hash iteration sites: %d" % len(sites))
    per_owner = {}
    n_addr = [0]
    for fn, c, kind, ga in sites:
        owner = strip_generics(fn.parent or fn.path)
        i = per_owner.get(owner, 0)
        per_owner[owner] = i + 1
        what = "%s: %s over %s %s" % (short(owner), short(c.callee), kind, ga[:90])
        reachable = fn.path in reach or (fn.parent in reach if fn.parent else False)
        if kind == "indexmap":
            run.ok(c.site(), what + " — insertion-ordered")
            continue
        random_state = "RandomState" in ga
        intern_key = False
        # key type = first generic argument of the container
        m = re.match(r"\[(?:&'\{erased\} (?:mut )?)?(?:std::collections::(?:hash::)?(?:map::|set::)?Hash(?:Map|Set)<)?(.*)", ga)
        first = (m.group(1) if m else ga).split(", ")[0]
        depth = 0
        key = ""
        for ch in (m.group(1) if m else ga):
            if ch in "<(":
                depth += 1
            if ch in ">)":
                depth -= 1
            if ch == "," and depth == 0:
                break
            key += ch
        if re.search(r"internment::(intern::)?Intern<", key):
            intern_key = True
        if not (random_state or intern_key):
            run.ok(c.site(), what + " — deterministic hasher, value-stable key `%s`" % key[:50])
            continue
        why = "RandomState is seeded per process" if random_state else "key `%s` is hashed by address" % key[:50]
        if not reachable:
            n_addr[0] += 1
            run.exempt(c.site(), what, "not reachable from capy::main in the resolved call graph (%s)" % why)
            continue
        # consumer: is the iterator only fed to an order-insensitive sink?
        users = set()
        dl = c.dest[0]
        for c2 in fn.calls():
            for a in c2.args:
                ch = fn.chain_operand(a, depth=6)
                if any(n.get("kind") == "call" and n.get("ln") == c.ln and n.get("bb") == c.bb for n in walk_chain(ch)):
                    users.add(short(c2.callee))
        if users and users <= ORDER_INSENSITIVE | {"into_iter", "next", "by_ref"} and users & ORDER_INSENSITIVE:
            run.exempt(c.site(), what, "consumer is order-insensitive (%s)" % sorted(users))
            continue
        n_addr[0] += 1
        run.finding(owner, "hash-order#%d" % i, c.file, c.ln,
                    what + ": iteration order varies from run to run (%s) and the site is reachable from main — anything derived from the order (diagnostic order, symbol "
                    "order, data layout) is not reproducible" % why)
    # positive control: the address-keyed classification must be alive (hir::common::get_all_named_types walks the
    # Intern-keyed TYPE_NAMES map; it is test-only today).  If no site at all is classified as address-keyed the key
    # extraction no longer understands rustc's type printing and the rule would pass vacuously.
    if n_addr[0] < 1:
        raise LookupError("no hash iteration site was classified as address-keyed (positive control TYPE_NAMES walk not recognised)")


AMBIENT = re.compile(r"^(std::time::(Instant|SystemTime)::now|std::process::id|std::thread::current|std::hash::RandomState::new|std::collections::hash_map::RandomState::new|"
                     r"std::env::(var|vars|var_os|vars_os|args|args_os|current_dir|current_exe|temp_dir)|rand::|getrandom::|fastrand::)")
AMBIENT_ALLOWED = {
    ("capy::compile_file", "now"): "timing for the `Finished ... in {:.2}s` status line (not diagnostic output, not in the object)",
    ("capy::compile_file", "current_dir"): "resolves the input path and the module directory (builds are compared in the same directory)",
    ("diagnostics::input_snippet", "current_dir"): "shortens displayed paths relative to the working directory",
    ("hir::body::Ctx::lower_import", "current_dir"): "import resolution relative to the working directory (C28)",
    ("hir::common::names::FileName::get_components", "current_dir"): "symbol names are relative to the working directory",
    ("capy::main", "args"): "command line",
    ("capy::git::download_core", "var"): "core download (not part of a build of existing sources)",
}


def r21b(ctx, run):
    F = ctx.facts
    n = 0
    for fn in F.fns:
        owner = strip_generics(fn.parent or fn.path)
        for c in fn.calls():
            if not AMBIENT.match(c.callee):
                continue
            n += 1
            key = (owner, short(c.callee))
            if key in AMBIENT_ALLOWED:
                run.exempt(c.site(), "%s calls %s" % (owner, c.callee), AMBIENT_ALLOWED[key])
            elif fn.crate in ("test_utils",):
                run.exempt(c.site(), "%s calls %s" % (owner, c.callee), "test support crate")
            else:
                run.finding(owner, "ambient:%s" % short(c.callee), c.file, c.ln,
                            "%s reads an ambient input (%s) outside the enumerated status/path sites: its value differs between runs and may reach output" % (owner, c.callee))
    if n < 5:
        raise LookupError("ambient input call sites: %d" % n)
    # pointer -> integer exposure
    exposed = 0
    casts = 0
    for fn in F.fns:
        if fn.crate in ("capy_macros", "test_utils"):
            continue
        for b in fn.blocks:
            for s in b["s"]:
                rv = s["rv"]
                if rv["k"] == "cast":
                    casts += 1
                    if "Expose" in rv["ck"]:
                        exposed += 1
                        run.finding(strip_generics(fn.parent or fn.path), "addr-exposed", s.get("file", fn.file), s["ln"],
                                    "a pointer is cast to an integer (%s -> %s): heap/stack addresses vary between runs" % (rv["ck"], rv["ty"]))
    run.ok("-", "%d casts inspected, %d expose an address" % (casts, exposed))


def r21c(ctx, run):
    """process-global caches keyed by Intern<Ty> are only point-queried"""
    F = ctx.facts
    n = 0
    for fn in F.fns:
        if fn.crate != "codegen":
            continue
        owner = strip_generics(fn.parent or fn.path)
        if not (owner.startswith("codegen::layout") or owner.startswith("codegen::convert")):
            continue
        for c in fn.calls():
            nm = short(c.callee)
            if re.search(r"Hash(Map|Set)", c.callee):
                n += 1
                good = nm not in ITER
                run.check(good, c.site(), "%s uses the type cache through %s" % (short(owner), nm), owner, "cache-iter:%s" % nm, c.file, c.ln,
                          "%s iterates a cache keyed by Intern<Ty> (%s): address-ordered" % (owner, nm))
    if n < 6:
        raise LookupError("uses of the layout/final-type caches: %d" % n)


def r21d(ctx, run):
    """what a build leaves in an output file depends only on this build: every file the compiler writes is replaced as a whole (fs::write, File::create,
    or OpenOptions with truncate(true) / create_new(true)); opening an existing output for writing without truncation keeps the tail of whatever an earlier,
    longer build left there, and appending keeps all of it"""
    F = ctx.facts
    whole, n_open = 0, 0
    for fn in F.fns:
        if fn.crate in ("test_utils",) or "::tests::" in fn.path:
            continue
        for c in fn.calls():
            cs = short(c.callee)
            if cs == "write" and c.callee.startswith("std::fs::write"):
                whole += 1
                run.ok(c.site(), "%s replaces its output with fs::write" % short(strip_generics(fn.path)))
            elif cs == "create" and "fs::File" in c.callee:
                whole += 1
                run.ok(c.site(), "%s replaces its output with File::create" % short(strip_generics(fn.path)))
            elif cs == "open" and "OpenOptions" in c.callee:
                n_open += 1
                ch = fn.chain_operand(c.args[0], depth=16)
                opts = {}
                for nd in FA.walk_chain(ch):
                    if nd.get("kind") == "call" and short(nd["callee"]) in ("write", "append", "truncate", "create", "create_new", "read") and len(nd.get("args", [])) >= 2:
                        a = nd["args"][1]
                        opts[short(nd["callee"])] = a.get("value") if a.get("kind") == "scalar" else "?"
                writes = opts.get("write") in ("true", "?") or opts.get("append") in ("true", "?")
                if not writes:
                    run.ok(c.site(), "%s opens a file for reading only" % short(strip_generics(fn.path)))
                    continue
                good = (opts.get("truncate") == "true" or opts.get("create_new") == "true") and opts.get("append") not in ("true", "?")
                run.check(good, c.site(), "%s opens its output with truncation (%s)" % (short(strip_generics(fn.path)), opts), strip_generics(fn.path), "output-not-replaced", c.file, c.ln,
                          "%s opens a file for writing with options %s: without truncate(true) the bytes an earlier, longer build left in the file survive after the new "
                          "contents, so the same source gives different output bytes depending on what was built there before" % (short(strip_generics(fn.path)), opts))
    if whole < 1:
        raise LookupError("whole-file writers (fs::write / File::create) in the workspace: %d" % whole)


def r21e(ctx, run):
    """bytes that are copied out of the JIT's memory and embedded into the object file contain no unwritten memory: the gaps between the members of an
    aggregate are never written by the code that produced the value, so they hold whatever was on the stack (addresses included).  Between taking
    the bytes (Box::from_raw of the result memory) and recording them (ComptimeResult::Data), every path passes a step that is given the result's type
    and the bytes mutably (the canonicalisation of the padding)."""
    F = ctx.facts
    fn = F.fn("codegen::compiler::comptime::eval_comptime_blocks")
    U = "codegen::compiler::comptime::eval_comptime_blocks"
    takes = [c for c in fn.calls() if short(c.callee) == "from_raw" and "Box" in c.callee]
    if not takes:
        raise LookupError("Box::from_raw of the comptime result memory")
    recs = []
    for c in fn.calls():
        if short(c.callee) == "insert" and len(c.args) >= 3:
            v = fn.chain_operand(c.args[2], depth=10)
            if any(n.get("kind") == "agg" and "ComptimeResult::Data" in (n.get("path") or "") or "Data" in str(n.get("variant", "")) for n in walk_chain(v)) and \
                    any(n.get("kind") == "call" and short(n["callee"]) == "from_raw" for n in walk_chain(v)):
                recs.append(c)
    if not recs:
        raise LookupError("results.insert(.., ComptimeResult::Data(bytes)) fed by Box::from_raw")
    for rec in recs:
        t = [x for x in takes if fn.dominates(x.bb, rec.bb)]
        if not t:
            continue
        t = t[0]
        canon_calls = []
        for c in fn.calls():
            if c.bb in (t.bb, rec.bb) or not (fn.dominates(t.bb, c.bb) and fn.dominates(c.bb, rec.bb)):
                continue
            chains = [fn.chain_operand(a, depth=10) for a in c.args]
            has_ty = any(any(n.get("name") == "return_ty" or n.get("var") == "return_ty" for n in walk_chain(ch)) for ch in chains)
            has_mut_bytes = any(any(n.get("kind") == "ref" and n.get("mut") for n in walk_chain(ch)) and any(n.get("kind") == "call" and short(n["callee"]) == "from_raw" for n in walk_chain(ch))
                                for ch in chains)
            if has_ty and has_mut_bytes:
                canon_calls.append(c)
        run.check(bool(canon_calls), rec.site(), "the captured bytes pass %s (given the type and the bytes mutably) before they are recorded" % (short(canon_calls[0].callee) if canon_calls else "-"),
                  U, "captured-bytes-not-canonical", rec.file, rec.ln,
                  "the bytes of an aggregate comptime result are taken from the JIT's memory (line %d) and recorded for embedding without a step that is given the "
                  "result's type and the bytes mutably: the padding between members holds stack garbage, so the same source gives different object bytes from run to run" % t.ln)


def r21g(ctx, run):
    """a comptime result that carries an address (slices, raw slices, `any`, aggregates with such members) puts a JIT address into the object file,
    which differs from run to run (shared with C04 R04.a, which decides the same sites for their run-time meaning)"""
    import c04

    class Proxy:
        def __init__(self, inner):
            self.inner = inner

        def __getattr__(self, n):
            return getattr(self.inner, n)

        def finding(self, function, descriptor, file, line, message, extra=None):
            if descriptor.endswith("kind:String"):
                # a top-level str is captured as an integer result (the pointer) - C04 lists it; its reproducibility is not decided here
                self.inner.exempt("%s:%s" % (file, line), message[:120], "top-level str result: decided under C04 (R04.a); not claimed as a reproducibility defect")
                return
            self.inner.finding(function, descriptor, file, line, message, extra)

        def check(self, cond, site, what, function, descriptor, file, line, message):
            if cond:
                self.inner.ok(site, what)
            else:
                self.finding(function, descriptor, file, line, message)
            return cond
    c04.r04a(ctx, Proxy(run))


def r21h(ctx, run):
    """the bytes of a constant table are all defined (shared with C04 R04.h: the array arm of expr_to_const_data evaluated on model items)"""
    import c04
    c04.r04h(ctx, run)


def r21i(ctx, run):
    """what is read out of the comptime function's return register is a number, never a pointer-class value: an address of the compiling process in the
    object file differs from run to run (shared with C04 R04.c: the capture gate and table)"""
    import c04
    c04.r04c(ctx, run)


def r21f(ctx, run):
    """the canonicalisation itself: zero_padding evaluated on sample layouts leaves no byte outside the value unwritten-through (shared with C04 R04.g);
    R21.e only decides that it is applied"""
    import c04
    c04.r04g(ctx, run)


def rules(ctx):
    return [
        Rule("R21.a", "every reachable hash-container iteration has a run-stable order (hasher, key type, container kind)", 30, r21a),
        Rule("R21.b", "ambient inputs only at enumerated sites; no address exposure", 1, r21b),
        Rule("R21.c", "Intern-keyed process-global caches are point-queried only", 6, r21c),
        Rule("R21.e", "bytes captured from JIT memory are canonicalised (padding) before they are embedded", 1, r21e),
        Rule("R21.f", "the canonicalisation zeroes every byte that is not part of the value, for every sample layout (shared with C04 R04.g)", 13, r21f),
        Rule("R21.h", "constant tables: every byte that goes into the object file is defined (shared with C04 R04.h)", 3, r21h),
        Rule("R21.i", "only number-typed comptime results are read out of a register: no address of the compiling process becomes an Integer result (shared with C04 R04.c)", 20, r21i),
        Rule("R21.g", "address-bearing comptime results are rejected or relocated: no JIT address reaches the object file (shared with C04 R04.a)", 15, r21g),
        Rule("R21.d", "every output file is replaced as a whole (no write-open without truncation, no append)", 1, r21d),
    ]

#!/bin/sh
# Build the two analysis engines and warm the dependency cache of the nightly check (offline).
set -e
cd "$(dirname "$0")"
export CARGO_NET_OFFLINE=true
python3 lib/build.py all

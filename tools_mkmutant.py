#!/usr/bin/env python3
"""tools_mkmutant.py PROP NAME FILE EXPECT WHAT  <<< "old\n===\nnew"   (helper used while building /verif/mutants)

Writes /verif/mutants/PROP/NAME.diff (+ .json) replacing the single occurrence of `old` by `new` in /repo/FILE.
An optional third section (`===` again) gives 1-based occurrence index when `old` is not unique.
"""
import difflib
import json
import os
import sys

prop, name, rel, expect, what = sys.argv[1:6]
parts = sys.stdin.read().split("\n===\n")
old, new = parts[0].rstrip("\n"), parts[1].rstrip("\n")
occ = int(parts[2]) if len(parts) > 2 else None
src = open(os.path.join("/repo", rel)).read()
n = src.count(old)
if n == 0 or (n > 1 and occ is None):
    sys.exit("%s: old text occurs %d times" % (name, n))
if occ is None:
    out = src.replace(old, new)
else:
    idx = -1
    for _ in range(occ):
        idx = src.index(old, idx + 1)
    out = src[:idx] + new + src[idx + len(old):]
d = "".join(difflib.unified_diff(src.splitlines(True), out.splitlines(True), "a/" + rel, "b/" + rel, n=3))
os.makedirs("/verif/mutants/" + prop, exist_ok=True)
open("/verif/mutants/%s/%s.diff" % (prop, name), "w").write(d)
meta = {"expect": expect, "what": what, "origin": "hand-made single-site mutant"}
if expect == "BENIGN":
    meta = {"benign": True, "what": what, "origin": "hand-made behaviour-preserving rewrite: the rules must stay silent"}
json.dump(meta,
          open("/verif/mutants/%s/%s.json" % (prop, name), "w"), indent=1)
print("wrote mutants/%s/%s.diff (%d lines)" % (prop, name, d.count("\n")))
